#!/bin/bash
# Regenerates every evidence file from a run on /repo's current tree: ./run_all.sh [quick|thorough]
cd /verif
tier=${1:-quick}
fail=0
for id in $(python3 -c "import json;print(' '.join(c['property_id'] for c in json.load(open('MANIFEST.json'))['checks']))"); do
  out=$(./check $id --tier $tier 2>/dev/null); rc=$?
  echo "$id rc=$rc $(echo "$out" | grep -E "^$id $tier" | tail -1)"
  echo "$out" | grep -E "^(VIOLATION|UNDECIDED|KNOWN-FINDING)" | head -5
  [ $rc -ne 0 ] && fail=1
done
exit $fail
