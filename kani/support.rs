// Shared Kani support, compiled as `crate::compiler::kani_support` (hook in src/compiler/mod.rs).
// * stubs for constructs CBMC cannot digest (format!, RandomState, Regex::new)
// * `MockTarget`: a Target whose every operation outcome is chosen by the harness (fault injection)
// * the *child contract* for `<Expr as Expression>::resolve`: harnesses replace the real recursive
//   dispatch by `mock_expr_resolve`, which (a) appends the child's identity to a ghost trace and
//   (b) returns the outcome the harness scripted for that child.  This is the modular rule of the
//   family: the node under verification is checked against its children's *contract*, not bodies.
#![allow(warnings)]

use crate::compiler::expression::{Expr, Resolved};
use crate::compiler::{Context, ExpressionError, Expression};
use crate::diagnostic::Span;
use crate::path::OwnedTargetPath;
use crate::value::Value;

pub fn stub_format(_: core::fmt::Arguments<'_>) -> String {
    String::new()
}

// ------------------------------------------------------------------ scripted child outcomes
#[derive(Clone, Copy, PartialEq, Eq, Debug)]
pub enum Out {
    Null,
    Bool(bool),
    Int(i64),
    Error,
    Abort,
    Return(i64),
}

pub const MAX_CHILD: usize = 4;
pub static mut CHILD_ADDR: [usize; MAX_CHILD] = [0; MAX_CHILD];
pub static mut CHILD_OUT: [Out; MAX_CHILD] = [Out::Null; MAX_CHILD];
pub static mut TRACE: [u8; 8] = [0; 8];
pub static mut TRACE_LEN: usize = 0;

pub const EV_TARGET_GET: u8 = 100;
pub const EV_TARGET_INSERT: u8 = 101;
pub const EV_TARGET_REMOVE: u8 = 102;
pub const EV_TARGET_GET_MUT: u8 = 103;

pub fn trace_push(ev: u8) {
    unsafe {
        if TRACE_LEN < 8 {
            TRACE[TRACE_LEN] = ev;
        }
        TRACE_LEN += 1;
    }
}
pub fn trace_len() -> usize {
    unsafe { TRACE_LEN }
}
pub fn trace_at(i: usize) -> u8 {
    unsafe { TRACE[i] }
}
pub fn script(i: usize, e: &Expr, out: Out) {
    unsafe {
        CHILD_ADDR[i] = e as *const Expr as usize;
        CHILD_OUT[i] = out;
    }
}
pub const ABORT_SPAN: (usize, usize) = (7, 9);
pub const RETURN_SPAN: (usize, usize) = (3, 5);

pub fn make_out(o: Out) -> Resolved {
    match o {
        Out::Null => Ok(Value::Null),
        Out::Bool(b) => Ok(Value::Boolean(b)),
        Out::Int(i) => Ok(Value::Integer(i)),
        Out::Error => Err(ExpressionError::Error { message: String::new(), labels: Vec::new(), notes: Vec::new() }),
        Out::Abort => Err(ExpressionError::Abort { span: Span::new(ABORT_SPAN.0, ABORT_SPAN.1), message: None }),
        Out::Return(i) => Err(ExpressionError::Return { span: Span::new(RETURN_SPAN.0, RETURN_SPAN.1), value: Value::Integer(i) }),
    }
}

/// Stub body for `<Expr as Expression>::resolve`.
pub fn mock_expr_resolve(this: &Expr, _ctx: &mut Context) -> Resolved {
    let a = this as *const Expr as usize;
    // loop-free on purpose (keeps the harness unwind bound independent of MAX_CHILD)
    if unsafe { CHILD_ADDR[0] } == a {
        trace_push(0);
        return make_out(unsafe { CHILD_OUT[0] });
    }
    if unsafe { CHILD_ADDR[1] } == a {
        trace_push(1);
        return make_out(unsafe { CHILD_OUT[1] });
    }
    if unsafe { CHILD_ADDR[2] } == a {
        trace_push(2);
        return make_out(unsafe { CHILD_OUT[2] });
    }
    if unsafe { CHILD_ADDR[3] } == a {
        trace_push(3);
        return make_out(unsafe { CHILD_OUT[3] });
    }
    panic!("mock_expr_resolve: unscripted child");
}

pub fn is_abort(r: &Resolved) -> bool {
    match r {
        Err(ExpressionError::Abort { span, message }) => *span == Span::new(ABORT_SPAN.0, ABORT_SPAN.1) && message.is_none(),
        _ => false,
    }
}
pub fn is_return(r: &Resolved, v: i64) -> bool {
    match r {
        Err(ExpressionError::Return { span, value }) => *span == Span::new(RETURN_SPAN.0, RETURN_SPAN.1) && matches!(value, Value::Integer(x) if *x == v),
        _ => false,
    }
}
pub fn is_error(r: &Resolved) -> bool {
    matches!(r, Err(ExpressionError::Error { .. }))
}
pub fn is_ok_int(r: &Resolved, v: i64) -> bool {
    matches!(r, Ok(Value::Integer(x)) if *x == v)
}
pub fn is_ok_bool(r: &Resolved, v: bool) -> bool {
    matches!(r, Ok(Value::Boolean(x)) if *x == v)
}
pub fn is_ok_null(r: &Resolved) -> bool {
    matches!(r, Ok(Value::Null))
}
/// result equals the scripted outcome `o` (value and control outcome, Error compared by class)
pub fn same_as(r: &Resolved, o: Out) -> bool {
    match o {
        Out::Null => is_ok_null(r),
        Out::Bool(b) => is_ok_bool(r, b),
        Out::Int(i) => is_ok_int(r, i),
        Out::Error => is_error(r),
        Out::Abort => is_abort(r),
        Out::Return(i) => is_return(r, i),
    }
}

// ------------------------------------------------------------------ fault-injecting target
#[derive(Debug)]
pub struct MockTarget {
    pub root: Value,
    pub get_fails: bool,
    pub insert_fails: bool,
    pub remove_fails: bool,
    pub get_missing: bool,
}
impl MockTarget {
    pub fn new() -> Self {
        MockTarget { root: Value::Null, get_fails: false, insert_fails: false, remove_fails: false, get_missing: false }
    }
}
impl crate::compiler::SecretTarget for MockTarget {
    fn get_secret(&self, _key: &str) -> Option<&str> {
        None
    }
    fn insert_secret(&mut self, _key: &str, _value: &str) {}
    fn remove_secret(&mut self, _key: &str) {}
}
impl crate::compiler::Target for MockTarget {
    fn target_insert(&mut self, _path: &OwnedTargetPath, value: Value) -> Result<(), String> {
        trace_push(EV_TARGET_INSERT);
        if self.insert_fails {
            core::mem::forget(value);
            return Err(String::new());
        }
        let old = core::mem::replace(&mut self.root, value);
        core::mem::forget(old);
        Ok(())
    }
    fn target_get(&self, _path: &OwnedTargetPath) -> Result<Option<&Value>, String> {
        trace_push(EV_TARGET_GET);
        if self.get_fails {
            return Err(String::new());
        }
        if self.get_missing {
            return Ok(None);
        }
        Ok(Some(&self.root))
    }
    fn target_get_mut(&mut self, _path: &OwnedTargetPath) -> Result<Option<&mut Value>, String> {
        trace_push(EV_TARGET_GET_MUT);
        if self.get_fails {
            return Err(String::new());
        }
        if self.get_missing {
            return Ok(None);
        }
        Ok(Some(&mut self.root))
    }
    fn target_remove(&mut self, _path: &OwnedTargetPath, _compact: bool) -> Result<Option<Value>, String> {
        trace_push(EV_TARGET_REMOVE);
        if self.remove_fails {
            return Err(String::new());
        }
        if self.get_missing {
            return Ok(None);
        }
        Ok(Some(core::mem::replace(&mut self.root, Value::Null)))
    }
}

pub fn stub_regex_new(_: &str) -> Result<regex::Regex, regex::Error> {
    panic!("UNSUPPORTED-BY-HARNESS: regex construction reached");
}

pub fn stub_random_state_new() -> std::hash::RandomState {
    unsafe { core::mem::transmute::<[u64; 2], std::hash::RandomState>([0x0123_4567, 0x89ab_cdef]) }
}

pub fn stub_conversion_convert<T>(_this: &crate::compiler::conversion::Conversion, _bytes: bytes::Bytes) -> Result<T, crate::compiler::conversion::Error>
where
    T: From<bytes::Bytes> + From<i64> + From<ordered_float::NotNan<f64>> + From<bool> + From<chrono::DateTime<chrono::Utc>>,
{
    panic!("UNSUPPORTED-BY-HARNESS: Conversion::convert (std string parsing) reached");
}
