// Kani contracts for /repo/src/stdlib/format_int.rs — implementation-independent function-level
// contract of `format_radix` (the Verus unit v_format_radix proves the current body with a loop
// invariant for every radix; these harnesses survive a rewrite of the body).
#![allow(warnings)]
use super::*;
use crate::compiler::kani_support::*;

fn round_trip(radix: u32) {
    let x: i64 = kani::any();
    let s = format_radix(x, radix);
    let back = i64::from_str_radix(&s, radix);
    assert!(matches!(back, Ok(y) if y == x), "C25.format_radix.round_trip: i64::from_str_radix(format_radix(x, r), r) == x for every i64 x");
    core::mem::forget(s);
}

// @unit tier=t prop=C25 fn=format_radix timeout=2400 bounded="radix 36 only (all i64)"
#[kani::proof]
#[kani::unwind(16)]
#[kani::stub(alloc::fmt::format, stub_format)]
fn k_format_radix_round_trip_36() {
    round_trip(36);
}

// @unit tier=t prop=C25 fn=format_radix timeout=2400 bounded="radix 2 only (all i64)"
#[kani::proof]
#[kani::unwind(67)]
#[kani::stub(alloc::fmt::format, stub_format)]
fn k_format_radix_round_trip_2() {
    round_trip(2);
}

// panic-freedom and shape only (cheaper): every i64, radix 2 (the longest output)
// @unit tier=t prop=C25 fn=format_radix timeout=2400 bounded="radix 2 only (all i64)"
#[kani::proof]
#[kani::unwind(67)]
#[kani::stub(alloc::fmt::format, stub_format)]
fn k_format_radix_no_panic_2() {
    let x: i64 = kani::any();
    let s = format_radix(x, 2);
    assert!(s.len() >= 1 && s.len() <= 65, "C25.format_radix.length_2: 1..=65 characters in base 2 (64 digits plus sign at i64::MIN)");
    assert!((s.as_bytes()[0] == b'-') == (x < 0), "C25.format_radix.sign_2: leading '-' exactly for negative inputs");
    core::mem::forget(s);
}

#[cfg(test)]
mod playback {
    use super::*;
    include!("/verif/.cache/playback/std_format_int.rs");
}
