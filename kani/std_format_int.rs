// /repo/src/stdlib/format_int.rs: format_radix is verified by the Verus unit v_format_radix (loop invariant,
// every i64 and radix). Implementation-independent Kani harnesses (format_radix + i64::from_str_radix,
// unwind 16/67) did not finish within 25 minutes and were dropped.
#![allow(warnings)]
use super::*;

#[cfg(test)]
mod playback {
    use super::*;
    include!("/verif/.cache/playback/std_format_int.rs");
}
