// Kani contracts for /repo/src/stdlib/format_int.rs (child module via cfg(kani) hook).
#![allow(warnings)]
use super::*;
