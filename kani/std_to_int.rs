// Kani contracts for /repo/src/stdlib/to_int.rs (child module via cfg(kani) hook).
#![allow(warnings)]
use super::*;
