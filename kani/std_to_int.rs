// Kani contracts for /repo/src/stdlib/to_int.rs
#![allow(warnings)]
use super::*;
use crate::compiler::kani_support::*;
use ordered_float::NotNan;

// @unit tier=q prop=C29 float=1 fn=to_int
#[kani::proof]
#[kani::unwind(2)]
#[kani::stub(alloc::fmt::format, stub_format)]
#[kani::stub(regex::Regex::new, stub_regex_new)]
#[kani::stub(crate::compiler::conversion::Conversion::convert, stub_conversion_convert)]
fn k_to_int_scalar() {
    let i: i64 = kani::any();
    let r1 = to_int(Value::Integer(i));
    assert!(matches!(&r1, Ok(Value::Integer(x)) if *x == i), "C29.to_int.int: to_int of an integer is that integer");
    let f: f64 = kani::any();
    kani::assume(!f.is_nan());
    let r2 = to_int(Value::Float(NotNan::new(f).unwrap()));
    assert!(matches!(&r2, Ok(Value::Integer(x)) if *x == (f as i64)), "C29.to_int.float: to_int of a float truncates toward zero and saturates (`as i64`)");
    let b: bool = kani::any();
    let r3 = to_int(Value::Boolean(b));
    assert!(matches!(&r3, Ok(Value::Integer(x)) if *x == (b as i64)), "C29.to_int.bool: to_int(true) == 1, to_int(false) == 0");
    let r4 = to_int(Value::Null);
    assert!(matches!(&r4, Ok(Value::Integer(0))), "C29.to_int.null: to_int(null) == 0");
    core::mem::forget(r1);
    core::mem::forget(r2);
    core::mem::forget(r3);
    core::mem::forget(r4);
}

#[cfg(test)]
mod playback {
    use super::*;
    include!("/verif/.cache/playback/std_to_int.rs");
}
