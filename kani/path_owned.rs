// Kani contracts for /repo/src/path/owned.rs (child module via cfg(kani) hook).
#![allow(warnings)]
use super::*;
