// Kani contracts for /repo/src/path/owned.rs (child module via cfg(kani) hook).
#![allow(warnings)]
use super::*;

#[cfg(test)]
mod playback {
    use super::*;
    include!("/verif/.cache/playback/path_owned.rs");
}
