// /repo/src/path/owned.rs: OwnedSegment/OwnedTargetPath::can_start_with are verified by the Verus unit
// v_read_only. A bounded Kani harness on the generic ValuePath::can_start_with (2-segment paths) ran CBMC out
// of memory and was dropped; that generic fn stays an assumed callee contract (DESIGN section 4, C15).
#![allow(warnings)]
use super::*;

#[cfg(test)]
mod playback {
    use super::*;
    include!("/verif/.cache/playback/path_owned.rs");
}
