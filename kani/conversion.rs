// Kani contracts for /repo/src/compiler/conversion/mod.rs (child module via cfg(kani) hook).
#![allow(warnings)]
use super::*;
