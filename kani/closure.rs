// Kani contracts for /repo/src/compiler/function/closure.rs (child module via cfg(kani) hook).
#![allow(warnings)]
use super::*;
