// Kani contracts for /repo/src/compiler/function/closure.rs (child module via cfg(kani) hook).
#![allow(warnings)]
use super::*;

#[cfg(test)]
mod playback {
    use super::*;
    include!("/verif/.cache/playback/closure.rs");
}
