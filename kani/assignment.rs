// Kani contracts for /repo/src/compiler/expression/assignment.rs (child module via cfg(kani) hook).
#![allow(warnings)]
use super::*;
