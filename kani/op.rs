// Kani contracts for /repo/src/compiler/expression/op.rs (child module via cfg(kani) hook).
// Children are abstracted by the *child contract* `mock_expr_resolve` (see support.rs): the stub
// replaces `<Expr as Expression>::resolve`, so `Op::resolve`'s real body is checked against its
// callees' contract, not their bodies.
#![allow(warnings)]
use super::*;
use crate::compiler::kani_support::*;
use crate::compiler::expression::{Expr, Noop};
use crate::compiler::state::RuntimeState;
use crate::compiler::ExpressionError;
use crate::compiler::TimeZone;

fn mk(opcode: ast::Opcode) -> Op {
    Op { lhs: Box::new(Expr::Noop(Noop)), rhs: Box::new(Expr::Noop(Noop)), opcode }
}

#[cfg(test)]
mod playback {
    use super::*;
    include!("/verif/.cache/playback/op.rs");
}
