// Kani contracts for /repo/src/datadog/filter/matcher.rs (child module via cfg(kani) hook).
#![allow(warnings)]
use super::*;

#[cfg(test)]
mod playback {
    use super::*;
    include!("/verif/.cache/playback/dd_matcher.rs");
}
