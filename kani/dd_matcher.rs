// Kani contracts for /repo/src/datadog/filter/matcher.rs (child module via cfg(kani) hook).
#![allow(warnings)]
use super::*;
