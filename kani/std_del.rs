// Kani contracts for /repo/src/stdlib/del.rs (child module via cfg(kani) hook).
#![allow(warnings)]
use super::*;
