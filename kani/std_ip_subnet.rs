// Kani contracts for /repo/src/stdlib/ip_subnet.rs (mask construction; loop-free, complete over all prefix lengths)
#![allow(warnings)]
use super::*;

// @unit tier=q prop=C04 fn=ipv4_mask
#[kani::proof]
fn k_ipv4_mask() {
    let bits: u32 = kani::any();
    kani::assume(bits <= 32);
    let ok = match ipv4_mask(bits) {
        IpAddr::V4(a) => { let v = u32::from(a); v.leading_ones() == bits && v.count_ones() == bits }
        _ => false,
    };
    assert!(ok, "C04.ip_mask.v4: the ipv4 mask of a /n subnet has exactly n leading one bits, for every n in 0..=32, and building it never panics");
    kani::cover!(bits == 0, "C04.ip_mask.v4_cover_zero");
}

// @unit tier=q prop=C04 fn=ipv6_mask
#[kani::proof]
fn k_ipv6_mask() {
    let bits: u32 = kani::any();
    kani::assume(bits <= 128);
    let ok = match ipv6_mask(bits) {
        IpAddr::V6(a) => { let v = u128::from(a); v.leading_ones() == bits && v.count_ones() == bits }
        _ => false,
    };
    assert!(ok, "C04.ip_mask.v6: the ipv6 mask of a /n subnet has exactly n leading one bits, for every n in 0..=128, and building it never panics");
    kani::cover!(bits == 0, "C04.ip_mask.v6_cover_zero");
}

#[cfg(test)]
mod playback {
    use super::*;
    include!("/verif/.cache/playback/std_ip_subnet.rs");
}
