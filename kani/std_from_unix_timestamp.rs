// Kani contracts for /repo/src/stdlib/from_unix_timestamp.rs (child module via cfg(kani) hook).
#![allow(warnings)]
use super::*;

#[cfg(test)]
mod playback {
    use super::*;
    include!("/verif/.cache/playback/std_from_unix_timestamp.rs");
}
