// /repo/src/value/value/crud/mod.rs: verified by the Verus unit v_crud_vec (a Kani harness over Vec<Value>
// element operations ran into the Value drop-glue explosion and timed out).
#![allow(warnings)]
use super::*;

#[cfg(test)]
mod playback {
    use super::*;
    include!("/verif/.cache/playback/crud.rs");
}
