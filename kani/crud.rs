// Kani contracts for /repo/src/value/value/crud/mod.rs (child module via cfg(kani) hook).
#![allow(warnings)]
use super::*;
