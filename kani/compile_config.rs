// Kani contracts for /repo/src/compiler/compile_config.rs (child module via cfg(kani) hook).
#![allow(warnings)]
use super::*;

#[cfg(test)]
mod playback {
    use super::*;
    include!("/verif/.cache/playback/compile_config.rs");
}
