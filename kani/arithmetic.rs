// Kani contracts for /repo/src/compiler/value/arithmetic.rs (compiled in place as a child module:
// `#[cfg(kani)] #[path = "/verif/kani/arithmetic.rs"] mod kani_verif;`).
// Every `assert!` message is an obligation id `<property>.<unit>.<clause>`; the runner maps failed
// messages back to properties.  Rules (DESIGN §1.1): concrete variants with symbolic payloads,
// results inspected by reference and forgotten, explicit unwind.
#![allow(warnings)]

use super::*;
use crate::value::Value;
use ordered_float::NotNan;

fn int(i: i64) -> Value {
    Value::Integer(i)
}
fn flt(f: f64) -> Value {
    Value::Float(NotNan::new(f).unwrap())
}
fn any_non_nan() -> f64 {
    let f: f64 = kani::any();
    kani::assume(!f.is_nan());
    f
}
fn as_bool(r: &Result<Value, ValueError>) -> Option<bool> {
    match r {
        Ok(Value::Boolean(b)) => Some(*b),
        _ => None,
    }
}
fn as_int(r: &Result<Value, ValueError>) -> Option<i64> {
    match r {
        Ok(Value::Integer(b)) => Some(*b),
        _ => None,
    }
}
fn as_float(r: &Result<Value, ValueError>) -> Option<f64> {
    match r {
        Ok(Value::Float(b)) => Some(b.into_inner()),
        _ => None,
    }
}
fn is_nan_err(r: &Result<Value, ValueError>) -> bool {
    matches!(r, Err(ValueError::NanFloat))
}
fn is_div0(r: &Result<Value, ValueError>) -> bool {
    matches!(r, Err(ValueError::DivideByZero))
}
macro_rules! fin {
    ($($r:ident),*) => { $( core::mem::forget($r); )* };
}

// ---------------------------------------------------------------- C10: integer comparisons
// @unit tier=q float=1 fn=try_lt,try_gt,try_le,try_ge,eq_lossy
#[kani::proof]
#[kani::unwind(2)]
fn c10_int_cmp() {
    let a: i64 = kani::any();
    let b: i64 = kani::any();
    let lt = int(a).try_lt(int(b));
    let gt = int(a).try_gt(int(b));
    let le = int(a).try_le(int(b));
    let ge = int(a).try_ge(int(b));
    let eq = int(a).eq_lossy(&int(b));
    assert!(as_bool(&lt) == Some(a < b), "C10.int.lt: Integer(a) < Integer(b) == (a < b)");
    assert!(as_bool(&gt) == Some(a > b), "C10.int.gt: Integer(a) > Integer(b) == (a > b)");
    assert!(as_bool(&le) == Some(a <= b), "C10.int.le: Integer(a) <= Integer(b) == (a <= b)");
    assert!(as_bool(&ge) == Some(a >= b), "C10.int.ge: Integer(a) >= Integer(b) == (a >= b)");
    assert!(eq == (a == b), "C10.int.eq_exact: Integer(a) == Integer(b) iff a == b (exact 64-bit equality)");
    let n = (as_bool(&lt) == Some(true)) as u8 + eq as u8 + (as_bool(&gt) == Some(true)) as u8;
    assert!(n == 1, "C10.int.trichotomy: exactly one of <, ==, > holds");
    kani::cover!(a > (1i64 << 53) && b == a - 1, "C10.int.cover_large");
    fin!(lt, gt, le, ge);
}

// ---------------------------------------------------------------- C10: float comparisons
// @unit tier=q float=1 fn=try_lt,try_gt,try_le,try_ge,eq_lossy
#[kani::proof]
#[kani::unwind(2)]
fn c10_float_cmp() {
    let a = any_non_nan();
    let b = any_non_nan();
    let lt = flt(a).try_lt(flt(b));
    let gt = flt(a).try_gt(flt(b));
    let le = flt(a).try_le(flt(b));
    let ge = flt(a).try_ge(flt(b));
    let eq = flt(a).eq_lossy(&flt(b));
    assert!(as_bool(&lt) == Some(a < b), "C10.float.lt: Float(a) < Float(b) == IEEE a < b");
    assert!(as_bool(&gt) == Some(a > b), "C10.float.gt: Float(a) > Float(b) == IEEE a > b");
    assert!(as_bool(&le) == Some(a <= b), "C10.float.le: Float(a) <= Float(b) == IEEE a <= b");
    assert!(as_bool(&ge) == Some(a >= b), "C10.float.ge: Float(a) >= Float(b) == IEEE a >= b");
    assert!(eq == (a == b), "C10.float.eq: Float(a) == Float(b) iff IEEE a == b (+0 == -0)");
    let n = (as_bool(&lt) == Some(true)) as u8 + eq as u8 + (as_bool(&gt) == Some(true)) as u8;
    assert!(n == 1, "C10.float.trichotomy: exactly one of <, ==, > holds for non-NaN floats");
    kani::cover!(a.is_infinite() && b.is_infinite() && a != b, "C10.float.cover_inf");
    fin!(lt, gt, le, ge);
}

// ---------------------------------------------------------------- C10: mixed int/float ==
// @unit tier=q float=1 fn=eq_lossy,try_lt,try_gt
#[kani::proof]
#[kani::unwind(2)]
fn c10_mixed_eq() {
    let a: i64 = kani::any();
    let b = any_non_nan();
    let e1 = int(a).eq_lossy(&flt(b));
    let e2 = flt(b).eq_lossy(&int(a));
    assert!(e1 == ((a as f64) == b), "C10.mixed.eq_if: Integer(a) == Float(b) iff (a as f64) == b");
    assert!(e2 == ((a as f64) == b), "C10.mixed.eq_fi: Float(b) == Integer(a) iff (a as f64) == b");
    let lt = int(a).try_lt(flt(b));
    let gt = int(a).try_gt(flt(b));
    assert!(as_bool(&lt) == Some((a as f64) < b), "C10.mixed.lt: Integer(a) < Float(b) == (a as f64) < b");
    assert!(as_bool(&gt) == Some((a as f64) > b), "C10.mixed.gt: Integer(a) > Float(b) == (a as f64) > b");
    fin!(lt, gt);
}

// ---------------------------------------------------------------- C11: integer arithmetic
// @unit tier=q float=1 fn=try_add,try_sub,try_mul
#[kani::proof]
#[kani::unwind(2)]
fn c11_int_arith() {
    let a: i64 = kani::any();
    let b: i64 = kani::any();
    let add = int(a).try_add(int(b));
    let sub = int(a).try_sub(int(b));
    let mul = int(a).try_mul(int(b));
    assert!(as_int(&add) == Some(a.wrapping_add(b)), "C11.int.add: Integer + Integer is 64-bit wrapping add");
    assert!(as_int(&sub) == Some(a.wrapping_sub(b)), "C11.int.sub: Integer - Integer is 64-bit wrapping sub");
    assert!(as_int(&mul) == Some(a.wrapping_mul(b)), "C11.int.mul: Integer * Integer is 64-bit wrapping mul");
    kani::cover!(a == i64::MAX && b == 1, "C11.int.cover_overflow");
    fin!(add, sub, mul);
}



// ---------------------------------------------------------------- C11: float arithmetic
fn check_float_result(r: &Result<Value, ValueError>, expect: f64) -> bool {
    if expect.is_nan() {
        is_nan_err(r)
    } else {
        match as_float(r) {
            Some(v) => v.to_bits() == expect.to_bits(),
            None => false,
        }
    }
}

// @unit tier=q float=1 fn=float_result
#[kani::proof]
#[kani::unwind(2)]
fn c11_float_result() {
    let f: f64 = kani::any();
    let r = float_result(f);
    if f.is_nan() {
        assert!(is_nan_err(&r), "C11.float_result.nan: a NaN result is reported as an error");
    } else {
        assert!(as_float(&r).map(f64::to_bits) == Some(f.to_bits()), "C11.float_result.ok: a non-NaN result is returned unchanged");
    }
    fin!(r);
}

// @unit tier=q float=1 fn=try_add,float_result
#[kani::proof]
#[kani::unwind(2)]
fn c11_float_add() {
    let a = any_non_nan();
    let b = any_non_nan();
    let r = flt(a).try_add(flt(b));
    assert!(check_float_result(&r, a + b), "C11.float.add: Float + Float == IEEE sum, error iff NaN (result never NaN)");
    kani::cover!(a == f64::INFINITY && b == f64::NEG_INFINITY, "C11.float.cover_inf_minus_inf");
    fin!(r);
}

// @unit tier=q float=1 fn=try_sub,float_result
#[kani::proof]
#[kani::unwind(2)]
fn c11_float_sub() {
    let a = any_non_nan();
    let b = any_non_nan();
    let r = flt(a).try_sub(flt(b));
    assert!(check_float_result(&r, a - b), "C11.float.sub: Float - Float == IEEE difference, error iff NaN");
    fin!(r);
}

// @unit tier=t float=1 fn=try_mul,float_result timeout=1500
#[kani::proof]
#[kani::unwind(2)]
fn c11_float_mul() {
    let a = any_non_nan();
    let b = any_non_nan();
    let r = flt(a).try_mul(flt(b));
    assert!(check_float_result(&r, a * b), "C11.float.mul: Float * Float == IEEE product, error iff NaN");
    fin!(r);
}



// mixed: int∘float == float op on converted integer (add/sub/mul/div), both operand orders
// @unit tier=q float=1 fn=try_add,try_sub
#[kani::proof]
#[kani::unwind(2)]
fn c11_mixed_add_sub() {
    let a: i64 = kani::any();
    let b = any_non_nan();
    let r1 = int(a).try_add(flt(b));
    let r2 = flt(b).try_add(int(a));
    let r3 = int(a).try_sub(flt(b));
    let r4 = flt(b).try_sub(int(a));
    assert!(check_float_result(&r1, a as f64 + b), "C11.mixed.add_if: Integer + Float == (a as f64) + b");
    assert!(check_float_result(&r2, b + a as f64), "C11.mixed.add_fi: Float + Integer == b + (a as f64)");
    assert!(check_float_result(&r3, a as f64 - b), "C11.mixed.sub_if: Integer - Float == (a as f64) - b");
    assert!(check_float_result(&r4, b - a as f64), "C11.mixed.sub_fi: Float - Integer == b - (a as f64)");
    fin!(r1, r2, r3, r4);
}

// @unit tier=t float=1 fn=try_mul timeout=1500
#[kani::proof]
#[kani::unwind(2)]
fn c11_mixed_mul() {
    let a: i64 = kani::any();
    let b = any_non_nan();
    let r1 = int(a).try_mul(flt(b));
    let r2 = flt(b).try_mul(int(a));
    assert!(check_float_result(&r1, a as f64 * b), "C11.mixed.mul_if: Integer * Float == (a as f64) * b");
    assert!(check_float_result(&r2, b * a as f64), "C11.mixed.mul_fi: Float * Integer == b * (a as f64)");
    fin!(r1, r2);
}


// string * n clamp: the closure is local to try_mul, so the contract is observed through the
// result length for the empty and 1-byte strings (loop-free for those: repeat(0)/len).
// @unit tier=q float=1 fn=try_mul bounded="n<=2,1-byte-string"
#[kani::proof]
#[kani::unwind(3)]
fn c11_bytes_mul_clamp() {
    let n: i64 = kani::any();
    kani::assume(n <= 2);
    let s = Value::Bytes(bytes::Bytes::from_static(b"a"));
    let r = s.try_mul(int(n));
    let want: usize = if n < 0 { 0 } else { n as usize };
    let ok = match &r {
        Ok(Value::Bytes(b)) => b.len() == want,
        _ => false,
    };
    assert!(ok, "C11.bytes.mul_clamp: \"a\" * n has max(n,0) bytes (n <= 2; negative n clamps to 0)");
    fin!(r);
}




// ---------------------------------------------------------------- C01/C02: kind-level table of the helpers (op_table of the Verus prelude optypes.rs)
// restricted to the heap-free variants null/boolean/integer/float (byte strings, timestamps and collections run into rule 1b)
// @unit tier=t float=1 timeout=2400 prop=C01 fn=try_add bounded="operand variants null, boolean, integer, float (all payloads)"
#[kani::proof]
#[kani::unwind(2)]
#[kani::stub(regex::Regex::new, crate::compiler::kani_support::stub_regex_new)]
fn k_optable_add() {
    {
        let r = (Value::Null).try_add(Value::Null);
        assert!(matches!(&r, Err(e) if !matches!(e, ValueError::NanFloat | ValueError::Or(_))), "C01.optable.add: try_add returns the variant the kind table says (Integer / Float-or-NaN-error / Boolean) or a type error, for every pair of heap-free scalar variants");
        core::mem::forget(r);
    }
    {
        let r = (Value::Null).try_add(Value::Boolean(kani::any()));
        assert!(matches!(&r, Err(e) if !matches!(e, ValueError::NanFloat | ValueError::Or(_))), "C01.optable.add: try_add returns the variant the kind table says (Integer / Float-or-NaN-error / Boolean) or a type error, for every pair of heap-free scalar variants");
        core::mem::forget(r);
    }
    {
        let r = (Value::Null).try_add(Value::Integer(kani::any()));
        assert!(matches!(&r, Err(e) if !matches!(e, ValueError::NanFloat | ValueError::Or(_))), "C01.optable.add: try_add returns the variant the kind table says (Integer / Float-or-NaN-error / Boolean) or a type error, for every pair of heap-free scalar variants");
        core::mem::forget(r);
    }
    {
        let r = (Value::Null).try_add(flt(any_non_nan()));
        assert!(matches!(&r, Err(e) if !matches!(e, ValueError::NanFloat | ValueError::Or(_))), "C01.optable.add: try_add returns the variant the kind table says (Integer / Float-or-NaN-error / Boolean) or a type error, for every pair of heap-free scalar variants");
        core::mem::forget(r);
    }
    {
        let r = (Value::Boolean(kani::any())).try_add(Value::Null);
        assert!(matches!(&r, Err(e) if !matches!(e, ValueError::NanFloat | ValueError::Or(_))), "C01.optable.add: try_add returns the variant the kind table says (Integer / Float-or-NaN-error / Boolean) or a type error, for every pair of heap-free scalar variants");
        core::mem::forget(r);
    }
    {
        let r = (Value::Boolean(kani::any())).try_add(Value::Boolean(kani::any()));
        assert!(matches!(&r, Err(e) if !matches!(e, ValueError::NanFloat | ValueError::Or(_))), "C01.optable.add: try_add returns the variant the kind table says (Integer / Float-or-NaN-error / Boolean) or a type error, for every pair of heap-free scalar variants");
        core::mem::forget(r);
    }
    {
        let r = (Value::Boolean(kani::any())).try_add(Value::Integer(kani::any()));
        assert!(matches!(&r, Err(e) if !matches!(e, ValueError::NanFloat | ValueError::Or(_))), "C01.optable.add: try_add returns the variant the kind table says (Integer / Float-or-NaN-error / Boolean) or a type error, for every pair of heap-free scalar variants");
        core::mem::forget(r);
    }
    {
        let r = (Value::Boolean(kani::any())).try_add(flt(any_non_nan()));
        assert!(matches!(&r, Err(e) if !matches!(e, ValueError::NanFloat | ValueError::Or(_))), "C01.optable.add: try_add returns the variant the kind table says (Integer / Float-or-NaN-error / Boolean) or a type error, for every pair of heap-free scalar variants");
        core::mem::forget(r);
    }
    {
        let r = (Value::Integer(kani::any())).try_add(Value::Null);
        assert!(matches!(&r, Err(e) if !matches!(e, ValueError::NanFloat | ValueError::Or(_))), "C01.optable.add: try_add returns the variant the kind table says (Integer / Float-or-NaN-error / Boolean) or a type error, for every pair of heap-free scalar variants");
        core::mem::forget(r);
    }
    {
        let r = (Value::Integer(kani::any())).try_add(Value::Boolean(kani::any()));
        assert!(matches!(&r, Err(e) if !matches!(e, ValueError::NanFloat | ValueError::Or(_))), "C01.optable.add: try_add returns the variant the kind table says (Integer / Float-or-NaN-error / Boolean) or a type error, for every pair of heap-free scalar variants");
        core::mem::forget(r);
    }
    {
        let r = (Value::Integer(kani::any())).try_add(Value::Integer(kani::any()));
        assert!(matches!(&r, Ok(Value::Integer(_))), "C01.optable.add: try_add returns the variant the kind table says (Integer / Float-or-NaN-error / Boolean) or a type error, for every pair of heap-free scalar variants");
        core::mem::forget(r);
    }
    {
        let r = (Value::Integer(kani::any())).try_add(flt(any_non_nan()));
        assert!(matches!(&r, Ok(Value::Float(_)) | Err(ValueError::NanFloat)), "C01.optable.add: try_add returns the variant the kind table says (Integer / Float-or-NaN-error / Boolean) or a type error, for every pair of heap-free scalar variants");
        core::mem::forget(r);
    }
    {
        let r = (flt(any_non_nan())).try_add(Value::Null);
        assert!(matches!(&r, Err(e) if !matches!(e, ValueError::NanFloat | ValueError::Or(_))), "C01.optable.add: try_add returns the variant the kind table says (Integer / Float-or-NaN-error / Boolean) or a type error, for every pair of heap-free scalar variants");
        core::mem::forget(r);
    }
    {
        let r = (flt(any_non_nan())).try_add(Value::Boolean(kani::any()));
        assert!(matches!(&r, Err(e) if !matches!(e, ValueError::NanFloat | ValueError::Or(_))), "C01.optable.add: try_add returns the variant the kind table says (Integer / Float-or-NaN-error / Boolean) or a type error, for every pair of heap-free scalar variants");
        core::mem::forget(r);
    }
    {
        let r = (flt(any_non_nan())).try_add(Value::Integer(kani::any()));
        assert!(matches!(&r, Ok(Value::Float(_)) | Err(ValueError::NanFloat)), "C01.optable.add: try_add returns the variant the kind table says (Integer / Float-or-NaN-error / Boolean) or a type error, for every pair of heap-free scalar variants");
        core::mem::forget(r);
    }
    {
        let r = (flt(any_non_nan())).try_add(flt(any_non_nan()));
        assert!(matches!(&r, Ok(Value::Float(_)) | Err(ValueError::NanFloat)), "C01.optable.add: try_add returns the variant the kind table says (Integer / Float-or-NaN-error / Boolean) or a type error, for every pair of heap-free scalar variants");
        core::mem::forget(r);
    }
}

// @unit tier=t float=1 timeout=2400 prop=C01 fn=try_sub bounded="operand variants null, boolean, integer, float (all payloads)"
#[kani::proof]
#[kani::unwind(2)]
#[kani::stub(regex::Regex::new, crate::compiler::kani_support::stub_regex_new)]
fn k_optable_sub() {
    {
        let r = (Value::Null).try_sub(Value::Null);
        assert!(matches!(&r, Err(e) if !matches!(e, ValueError::NanFloat | ValueError::Or(_))), "C01.optable.sub: try_sub returns the variant the kind table says (Integer / Float-or-NaN-error / Boolean) or a type error, for every pair of heap-free scalar variants");
        core::mem::forget(r);
    }
    {
        let r = (Value::Null).try_sub(Value::Boolean(kani::any()));
        assert!(matches!(&r, Err(e) if !matches!(e, ValueError::NanFloat | ValueError::Or(_))), "C01.optable.sub: try_sub returns the variant the kind table says (Integer / Float-or-NaN-error / Boolean) or a type error, for every pair of heap-free scalar variants");
        core::mem::forget(r);
    }
    {
        let r = (Value::Null).try_sub(Value::Integer(kani::any()));
        assert!(matches!(&r, Err(e) if !matches!(e, ValueError::NanFloat | ValueError::Or(_))), "C01.optable.sub: try_sub returns the variant the kind table says (Integer / Float-or-NaN-error / Boolean) or a type error, for every pair of heap-free scalar variants");
        core::mem::forget(r);
    }
    {
        let r = (Value::Null).try_sub(flt(any_non_nan()));
        assert!(matches!(&r, Err(e) if !matches!(e, ValueError::NanFloat | ValueError::Or(_))), "C01.optable.sub: try_sub returns the variant the kind table says (Integer / Float-or-NaN-error / Boolean) or a type error, for every pair of heap-free scalar variants");
        core::mem::forget(r);
    }
    {
        let r = (Value::Boolean(kani::any())).try_sub(Value::Null);
        assert!(matches!(&r, Err(e) if !matches!(e, ValueError::NanFloat | ValueError::Or(_))), "C01.optable.sub: try_sub returns the variant the kind table says (Integer / Float-or-NaN-error / Boolean) or a type error, for every pair of heap-free scalar variants");
        core::mem::forget(r);
    }
    {
        let r = (Value::Boolean(kani::any())).try_sub(Value::Boolean(kani::any()));
        assert!(matches!(&r, Err(e) if !matches!(e, ValueError::NanFloat | ValueError::Or(_))), "C01.optable.sub: try_sub returns the variant the kind table says (Integer / Float-or-NaN-error / Boolean) or a type error, for every pair of heap-free scalar variants");
        core::mem::forget(r);
    }
    {
        let r = (Value::Boolean(kani::any())).try_sub(Value::Integer(kani::any()));
        assert!(matches!(&r, Err(e) if !matches!(e, ValueError::NanFloat | ValueError::Or(_))), "C01.optable.sub: try_sub returns the variant the kind table says (Integer / Float-or-NaN-error / Boolean) or a type error, for every pair of heap-free scalar variants");
        core::mem::forget(r);
    }
    {
        let r = (Value::Boolean(kani::any())).try_sub(flt(any_non_nan()));
        assert!(matches!(&r, Err(e) if !matches!(e, ValueError::NanFloat | ValueError::Or(_))), "C01.optable.sub: try_sub returns the variant the kind table says (Integer / Float-or-NaN-error / Boolean) or a type error, for every pair of heap-free scalar variants");
        core::mem::forget(r);
    }
    {
        let r = (Value::Integer(kani::any())).try_sub(Value::Null);
        assert!(matches!(&r, Err(e) if !matches!(e, ValueError::NanFloat | ValueError::Or(_))), "C01.optable.sub: try_sub returns the variant the kind table says (Integer / Float-or-NaN-error / Boolean) or a type error, for every pair of heap-free scalar variants");
        core::mem::forget(r);
    }
    {
        let r = (Value::Integer(kani::any())).try_sub(Value::Boolean(kani::any()));
        assert!(matches!(&r, Err(e) if !matches!(e, ValueError::NanFloat | ValueError::Or(_))), "C01.optable.sub: try_sub returns the variant the kind table says (Integer / Float-or-NaN-error / Boolean) or a type error, for every pair of heap-free scalar variants");
        core::mem::forget(r);
    }
    {
        let r = (Value::Integer(kani::any())).try_sub(Value::Integer(kani::any()));
        assert!(matches!(&r, Ok(Value::Integer(_))), "C01.optable.sub: try_sub returns the variant the kind table says (Integer / Float-or-NaN-error / Boolean) or a type error, for every pair of heap-free scalar variants");
        core::mem::forget(r);
    }
    {
        let r = (Value::Integer(kani::any())).try_sub(flt(any_non_nan()));
        assert!(matches!(&r, Ok(Value::Float(_)) | Err(ValueError::NanFloat)), "C01.optable.sub: try_sub returns the variant the kind table says (Integer / Float-or-NaN-error / Boolean) or a type error, for every pair of heap-free scalar variants");
        core::mem::forget(r);
    }
    {
        let r = (flt(any_non_nan())).try_sub(Value::Null);
        assert!(matches!(&r, Err(e) if !matches!(e, ValueError::NanFloat | ValueError::Or(_))), "C01.optable.sub: try_sub returns the variant the kind table says (Integer / Float-or-NaN-error / Boolean) or a type error, for every pair of heap-free scalar variants");
        core::mem::forget(r);
    }
    {
        let r = (flt(any_non_nan())).try_sub(Value::Boolean(kani::any()));
        assert!(matches!(&r, Err(e) if !matches!(e, ValueError::NanFloat | ValueError::Or(_))), "C01.optable.sub: try_sub returns the variant the kind table says (Integer / Float-or-NaN-error / Boolean) or a type error, for every pair of heap-free scalar variants");
        core::mem::forget(r);
    }
    {
        let r = (flt(any_non_nan())).try_sub(Value::Integer(kani::any()));
        assert!(matches!(&r, Ok(Value::Float(_)) | Err(ValueError::NanFloat)), "C01.optable.sub: try_sub returns the variant the kind table says (Integer / Float-or-NaN-error / Boolean) or a type error, for every pair of heap-free scalar variants");
        core::mem::forget(r);
    }
    {
        let r = (flt(any_non_nan())).try_sub(flt(any_non_nan()));
        assert!(matches!(&r, Ok(Value::Float(_)) | Err(ValueError::NanFloat)), "C01.optable.sub: try_sub returns the variant the kind table says (Integer / Float-or-NaN-error / Boolean) or a type error, for every pair of heap-free scalar variants");
        core::mem::forget(r);
    }
}

// @unit tier=t float=1 timeout=2400 prop=C01 fn=try_mul bounded="operand variants null, boolean, integer, float (all payloads)"
#[kani::proof]
#[kani::unwind(2)]
#[kani::stub(regex::Regex::new, crate::compiler::kani_support::stub_regex_new)]
fn k_optable_mul() {
    {
        let r = (Value::Null).try_mul(Value::Null);
        assert!(matches!(&r, Err(e) if !matches!(e, ValueError::NanFloat | ValueError::Or(_))), "C01.optable.mul: try_mul returns the variant the kind table says (Integer / Float-or-NaN-error / Boolean) or a type error, for every pair of heap-free scalar variants");
        core::mem::forget(r);
    }
    {
        let r = (Value::Null).try_mul(Value::Boolean(kani::any()));
        assert!(matches!(&r, Err(e) if !matches!(e, ValueError::NanFloat | ValueError::Or(_))), "C01.optable.mul: try_mul returns the variant the kind table says (Integer / Float-or-NaN-error / Boolean) or a type error, for every pair of heap-free scalar variants");
        core::mem::forget(r);
    }
    {
        let r = (Value::Null).try_mul(Value::Integer(kani::any()));
        assert!(matches!(&r, Err(e) if !matches!(e, ValueError::NanFloat | ValueError::Or(_))), "C01.optable.mul: try_mul returns the variant the kind table says (Integer / Float-or-NaN-error / Boolean) or a type error, for every pair of heap-free scalar variants");
        core::mem::forget(r);
    }
    {
        let r = (Value::Null).try_mul(flt(any_non_nan()));
        assert!(matches!(&r, Err(e) if !matches!(e, ValueError::NanFloat | ValueError::Or(_))), "C01.optable.mul: try_mul returns the variant the kind table says (Integer / Float-or-NaN-error / Boolean) or a type error, for every pair of heap-free scalar variants");
        core::mem::forget(r);
    }
    {
        let r = (Value::Boolean(kani::any())).try_mul(Value::Null);
        assert!(matches!(&r, Err(e) if !matches!(e, ValueError::NanFloat | ValueError::Or(_))), "C01.optable.mul: try_mul returns the variant the kind table says (Integer / Float-or-NaN-error / Boolean) or a type error, for every pair of heap-free scalar variants");
        core::mem::forget(r);
    }
    {
        let r = (Value::Boolean(kani::any())).try_mul(Value::Boolean(kani::any()));
        assert!(matches!(&r, Err(e) if !matches!(e, ValueError::NanFloat | ValueError::Or(_))), "C01.optable.mul: try_mul returns the variant the kind table says (Integer / Float-or-NaN-error / Boolean) or a type error, for every pair of heap-free scalar variants");
        core::mem::forget(r);
    }
    {
        let r = (Value::Boolean(kani::any())).try_mul(Value::Integer(kani::any()));
        assert!(matches!(&r, Err(e) if !matches!(e, ValueError::NanFloat | ValueError::Or(_))), "C01.optable.mul: try_mul returns the variant the kind table says (Integer / Float-or-NaN-error / Boolean) or a type error, for every pair of heap-free scalar variants");
        core::mem::forget(r);
    }
    {
        let r = (Value::Boolean(kani::any())).try_mul(flt(any_non_nan()));
        assert!(matches!(&r, Err(e) if !matches!(e, ValueError::NanFloat | ValueError::Or(_))), "C01.optable.mul: try_mul returns the variant the kind table says (Integer / Float-or-NaN-error / Boolean) or a type error, for every pair of heap-free scalar variants");
        core::mem::forget(r);
    }
    {
        let r = (Value::Integer(kani::any())).try_mul(Value::Null);
        assert!(matches!(&r, Err(e) if !matches!(e, ValueError::NanFloat | ValueError::Or(_))), "C01.optable.mul: try_mul returns the variant the kind table says (Integer / Float-or-NaN-error / Boolean) or a type error, for every pair of heap-free scalar variants");
        core::mem::forget(r);
    }
    {
        let r = (Value::Integer(kani::any())).try_mul(Value::Boolean(kani::any()));
        assert!(matches!(&r, Err(e) if !matches!(e, ValueError::NanFloat | ValueError::Or(_))), "C01.optable.mul: try_mul returns the variant the kind table says (Integer / Float-or-NaN-error / Boolean) or a type error, for every pair of heap-free scalar variants");
        core::mem::forget(r);
    }
    {
        let r = (Value::Integer(kani::any())).try_mul(Value::Integer(kani::any()));
        assert!(matches!(&r, Ok(Value::Integer(_))), "C01.optable.mul: try_mul returns the variant the kind table says (Integer / Float-or-NaN-error / Boolean) or a type error, for every pair of heap-free scalar variants");
        core::mem::forget(r);
    }
    {
        let r = (Value::Integer(kani::any())).try_mul(flt(any_non_nan()));
        assert!(matches!(&r, Ok(Value::Float(_)) | Err(ValueError::NanFloat)), "C01.optable.mul: try_mul returns the variant the kind table says (Integer / Float-or-NaN-error / Boolean) or a type error, for every pair of heap-free scalar variants");
        core::mem::forget(r);
    }
    {
        let r = (flt(any_non_nan())).try_mul(Value::Null);
        assert!(matches!(&r, Err(e) if !matches!(e, ValueError::NanFloat | ValueError::Or(_))), "C01.optable.mul: try_mul returns the variant the kind table says (Integer / Float-or-NaN-error / Boolean) or a type error, for every pair of heap-free scalar variants");
        core::mem::forget(r);
    }
    {
        let r = (flt(any_non_nan())).try_mul(Value::Boolean(kani::any()));
        assert!(matches!(&r, Err(e) if !matches!(e, ValueError::NanFloat | ValueError::Or(_))), "C01.optable.mul: try_mul returns the variant the kind table says (Integer / Float-or-NaN-error / Boolean) or a type error, for every pair of heap-free scalar variants");
        core::mem::forget(r);
    }
    {
        let r = (flt(any_non_nan())).try_mul(Value::Integer(kani::any()));
        assert!(matches!(&r, Ok(Value::Float(_)) | Err(ValueError::NanFloat)), "C01.optable.mul: try_mul returns the variant the kind table says (Integer / Float-or-NaN-error / Boolean) or a type error, for every pair of heap-free scalar variants");
        core::mem::forget(r);
    }
    {
        let r = (flt(any_non_nan())).try_mul(flt(any_non_nan()));
        assert!(matches!(&r, Ok(Value::Float(_)) | Err(ValueError::NanFloat)), "C01.optable.mul: try_mul returns the variant the kind table says (Integer / Float-or-NaN-error / Boolean) or a type error, for every pair of heap-free scalar variants");
        core::mem::forget(r);
    }
}

// @unit tier=t float=1 timeout=2400 prop=C01 fn=try_lt bounded="operand variants null, boolean, integer, float (all payloads)"
#[kani::proof]
#[kani::unwind(2)]
#[kani::stub(regex::Regex::new, crate::compiler::kani_support::stub_regex_new)]
fn k_optable_lt() {
    {
        let r = (Value::Null).try_lt(Value::Null);
        assert!(matches!(&r, Err(e) if !matches!(e, ValueError::NanFloat | ValueError::Or(_))), "C01.optable.lt: try_lt returns the variant the kind table says (Integer / Float-or-NaN-error / Boolean) or a type error, for every pair of heap-free scalar variants");
        core::mem::forget(r);
    }
    {
        let r = (Value::Null).try_lt(Value::Boolean(kani::any()));
        assert!(matches!(&r, Err(e) if !matches!(e, ValueError::NanFloat | ValueError::Or(_))), "C01.optable.lt: try_lt returns the variant the kind table says (Integer / Float-or-NaN-error / Boolean) or a type error, for every pair of heap-free scalar variants");
        core::mem::forget(r);
    }
    {
        let r = (Value::Null).try_lt(Value::Integer(kani::any()));
        assert!(matches!(&r, Err(e) if !matches!(e, ValueError::NanFloat | ValueError::Or(_))), "C01.optable.lt: try_lt returns the variant the kind table says (Integer / Float-or-NaN-error / Boolean) or a type error, for every pair of heap-free scalar variants");
        core::mem::forget(r);
    }
    {
        let r = (Value::Null).try_lt(flt(any_non_nan()));
        assert!(matches!(&r, Err(e) if !matches!(e, ValueError::NanFloat | ValueError::Or(_))), "C01.optable.lt: try_lt returns the variant the kind table says (Integer / Float-or-NaN-error / Boolean) or a type error, for every pair of heap-free scalar variants");
        core::mem::forget(r);
    }
    {
        let r = (Value::Boolean(kani::any())).try_lt(Value::Null);
        assert!(matches!(&r, Err(e) if !matches!(e, ValueError::NanFloat | ValueError::Or(_))), "C01.optable.lt: try_lt returns the variant the kind table says (Integer / Float-or-NaN-error / Boolean) or a type error, for every pair of heap-free scalar variants");
        core::mem::forget(r);
    }
    {
        let r = (Value::Boolean(kani::any())).try_lt(Value::Boolean(kani::any()));
        assert!(matches!(&r, Err(e) if !matches!(e, ValueError::NanFloat | ValueError::Or(_))), "C01.optable.lt: try_lt returns the variant the kind table says (Integer / Float-or-NaN-error / Boolean) or a type error, for every pair of heap-free scalar variants");
        core::mem::forget(r);
    }
    {
        let r = (Value::Boolean(kani::any())).try_lt(Value::Integer(kani::any()));
        assert!(matches!(&r, Err(e) if !matches!(e, ValueError::NanFloat | ValueError::Or(_))), "C01.optable.lt: try_lt returns the variant the kind table says (Integer / Float-or-NaN-error / Boolean) or a type error, for every pair of heap-free scalar variants");
        core::mem::forget(r);
    }
    {
        let r = (Value::Boolean(kani::any())).try_lt(flt(any_non_nan()));
        assert!(matches!(&r, Err(e) if !matches!(e, ValueError::NanFloat | ValueError::Or(_))), "C01.optable.lt: try_lt returns the variant the kind table says (Integer / Float-or-NaN-error / Boolean) or a type error, for every pair of heap-free scalar variants");
        core::mem::forget(r);
    }
    {
        let r = (Value::Integer(kani::any())).try_lt(Value::Null);
        assert!(matches!(&r, Err(e) if !matches!(e, ValueError::NanFloat | ValueError::Or(_))), "C01.optable.lt: try_lt returns the variant the kind table says (Integer / Float-or-NaN-error / Boolean) or a type error, for every pair of heap-free scalar variants");
        core::mem::forget(r);
    }
    {
        let r = (Value::Integer(kani::any())).try_lt(Value::Boolean(kani::any()));
        assert!(matches!(&r, Err(e) if !matches!(e, ValueError::NanFloat | ValueError::Or(_))), "C01.optable.lt: try_lt returns the variant the kind table says (Integer / Float-or-NaN-error / Boolean) or a type error, for every pair of heap-free scalar variants");
        core::mem::forget(r);
    }
    {
        let r = (Value::Integer(kani::any())).try_lt(Value::Integer(kani::any()));
        assert!(matches!(&r, Ok(Value::Boolean(_))), "C01.optable.lt: try_lt returns the variant the kind table says (Integer / Float-or-NaN-error / Boolean) or a type error, for every pair of heap-free scalar variants");
        core::mem::forget(r);
    }
    {
        let r = (Value::Integer(kani::any())).try_lt(flt(any_non_nan()));
        assert!(matches!(&r, Ok(Value::Boolean(_))), "C01.optable.lt: try_lt returns the variant the kind table says (Integer / Float-or-NaN-error / Boolean) or a type error, for every pair of heap-free scalar variants");
        core::mem::forget(r);
    }
    {
        let r = (flt(any_non_nan())).try_lt(Value::Null);
        assert!(matches!(&r, Err(e) if !matches!(e, ValueError::NanFloat | ValueError::Or(_))), "C01.optable.lt: try_lt returns the variant the kind table says (Integer / Float-or-NaN-error / Boolean) or a type error, for every pair of heap-free scalar variants");
        core::mem::forget(r);
    }
    {
        let r = (flt(any_non_nan())).try_lt(Value::Boolean(kani::any()));
        assert!(matches!(&r, Err(e) if !matches!(e, ValueError::NanFloat | ValueError::Or(_))), "C01.optable.lt: try_lt returns the variant the kind table says (Integer / Float-or-NaN-error / Boolean) or a type error, for every pair of heap-free scalar variants");
        core::mem::forget(r);
    }
    {
        let r = (flt(any_non_nan())).try_lt(Value::Integer(kani::any()));
        assert!(matches!(&r, Ok(Value::Boolean(_))), "C01.optable.lt: try_lt returns the variant the kind table says (Integer / Float-or-NaN-error / Boolean) or a type error, for every pair of heap-free scalar variants");
        core::mem::forget(r);
    }
    {
        let r = (flt(any_non_nan())).try_lt(flt(any_non_nan()));
        assert!(matches!(&r, Ok(Value::Boolean(_))), "C01.optable.lt: try_lt returns the variant the kind table says (Integer / Float-or-NaN-error / Boolean) or a type error, for every pair of heap-free scalar variants");
        core::mem::forget(r);
    }
}

// vacuity canary: must FAIL; the runner treats a passing canary as a broken tool chain.
// @unit tier=q prop=CANARY
#[kani::proof]
#[kani::unwind(2)]
fn canary_arithmetic_must_fail() {
    let a: i64 = kani::any();
    let r = int(a).try_add(int(1));
    assert!(as_int(&r) == Some(a), "CANARY: deliberately false");
    fin!(r);
}

#[cfg(test)]
mod playback {
    use super::*;
    include!("/verif/.cache/playback/arithmetic.rs");
}

// ---------------------------------------------------------------- C09: try_or / try_and contracts
// `try_or` is generic over `impl FnMut`, so the closure is a counting one: no Expr involved.
// Functional contract (substituted by the Verus extractor at `.try_or(|| rhs.resolve(ctx))`):
//   v.try_or(f) == match v { Null | Boolean(false) => f().map_err(ValueError::Or), v => Ok(v) }
use crate::compiler::kani_support::{make_out, Out};
use crate::compiler::ExpressionError as EE;

fn or_case(recv: Value, falsy: bool, out: Out) {
    let mut calls: u8 = 0;
    let r = recv.try_or(|| {
        calls += 1;
        make_out(out)
    });
    if falsy {
        assert!(calls == 1, "C09.try_or.falsy_calls_once: a null/false receiver evaluates the rhs exactly once");
        let ok = match (&r, out) {
            (Ok(Value::Integer(x)), Out::Int(i)) => *x == i,
            (Ok(Value::Null), Out::Null) => true,
            (Ok(Value::Boolean(x)), Out::Bool(b)) => *x == b,
            (Err(ValueError::Or(EE::Abort { .. })), Out::Abort) => true,
            (Err(ValueError::Or(EE::Return { value: Value::Integer(x), .. })), Out::Return(i)) => *x == i,
            (Err(ValueError::Or(EE::Error { .. })), Out::Error) => true,
            _ => false,
        };
        assert!(ok, "C09.try_or.falsy_result: the result is the rhs outcome (errors wrapped in ValueError::Or)");
    } else {
        assert!(calls == 0, "C09.try_or.truthy_no_call: any other receiver never evaluates the rhs");
    }
    core::mem::forget(r);
}

// @obl C09.try_or.falsy_calls_once: a null/false receiver evaluates the rhs exactly once
// @obl C09.try_or.falsy_result: the result is the rhs outcome (errors wrapped in ValueError::Or)
// @unit tier=q prop=C09 fn=try_or
#[kani::proof]
#[kani::unwind(2)]
fn k_try_or_null_int() {
    or_case(Value::Null, true, Out::Int(kani::any()));
}

// @obl C09.try_or.falsy_calls_once: a null/false receiver evaluates the rhs exactly once
// @obl C09.try_or.falsy_result: the result is the rhs outcome (errors wrapped in ValueError::Or)
// @unit tier=q prop=C09 fn=try_or
#[kani::proof]
#[kani::unwind(2)]
fn k_try_or_null_abort() {
    or_case(Value::Null, true, Out::Abort);
}

// @obl C09.try_or.falsy_calls_once: a null/false receiver evaluates the rhs exactly once
// @obl C09.try_or.falsy_result: the result is the rhs outcome (errors wrapped in ValueError::Or)
// @unit tier=q prop=C09 fn=try_or
#[kani::proof]
#[kani::unwind(2)]
fn k_try_or_null_return() {
    or_case(Value::Null, true, Out::Return(kani::any()));
}

// @obl C09.try_or.falsy_calls_once: a null/false receiver evaluates the rhs exactly once
// @obl C09.try_or.falsy_result: the result is the rhs outcome (errors wrapped in ValueError::Or)
// @unit tier=q prop=C09 fn=try_or
#[kani::proof]
#[kani::unwind(2)]
fn k_try_or_false_int() {
    or_case(Value::Boolean(false), true, Out::Int(kani::any()));
}

// @obl C09.try_or.falsy_calls_once: a null/false receiver evaluates the rhs exactly once
// @obl C09.try_or.falsy_result: the result is the rhs outcome (errors wrapped in ValueError::Or)
// @unit tier=q prop=C09 fn=try_or
#[kani::proof]
#[kani::unwind(2)]
fn k_try_or_false_abort() {
    or_case(Value::Boolean(false), true, Out::Abort);
}

// @obl C09.try_or.falsy_calls_once: a null/false receiver evaluates the rhs exactly once
// @obl C09.try_or.falsy_result: the result is the rhs outcome (errors wrapped in ValueError::Or)
// @unit tier=q prop=C09 fn=try_or
#[kani::proof]
#[kani::unwind(2)]
fn k_try_or_false_return() {
    or_case(Value::Boolean(false), true, Out::Return(kani::any()));
}

// @obl C09.try_or.truthy_no_call: any other receiver never evaluates the rhs
// @unit tier=q prop=C09 fn=try_or
#[kani::proof]
#[kani::unwind(2)]
fn k_try_or_true() {
    or_case(Value::Boolean(true), false, Out::Abort);
}

// @obl C09.try_or.truthy_no_call: any other receiver never evaluates the rhs
// @unit tier=q prop=C09 fn=try_or
#[kani::proof]
#[kani::unwind(2)]
fn k_try_or_int() {
    or_case(Value::Integer(kani::any()), false, Out::Abort);
}

// @obl C09.try_or.truthy_no_call: any other receiver never evaluates the rhs
// @unit tier=q prop=C09 fn=try_or
#[kani::proof]
#[kani::unwind(2)]
fn k_try_or_float() {
    or_case(flt(any_non_nan()), false, Out::Abort);
}

// @obl C09.try_or.truthy_no_call: any other receiver never evaluates the rhs
// @unit tier=q prop=C09 fn=try_or
#[kani::proof]
#[kani::unwind(2)]
fn k_try_or_bytes() {
    or_case(Value::Bytes(bytes::Bytes::from_static(b"")), false, Out::Abort);
}

// @unit tier=q prop=C09 fn=try_or
#[kani::proof]
#[kani::unwind(2)]
fn k_try_or_truthy_identity() {
    let i: i64 = kani::any();
    let r = int(i).try_or(|| make_out(Out::Abort));
    assert!(as_int(&r) == Some(i), "C09.try_or.truthy_result_int: a non-null, non-false receiver is returned unchanged (integer)");
    let r2 = Value::Boolean(true).try_or(|| make_out(Out::Abort));
    assert!(as_bool(&r2) == Some(true), "C09.try_or.truthy_result_true: `true` is returned unchanged");
    fin!(r, r2);
}

// @unit tier=q prop=C09 fn=try_and
#[kani::proof]
#[kani::unwind(2)]
#[kani::stub(regex::Regex::new, crate::compiler::kani_support::stub_regex_new)]
fn k_try_and_table() {
    let a: bool = kani::any();
    let b: bool = kani::any();
    let i: i64 = kani::any();
    let r1 = Value::Boolean(a).try_and(Value::Boolean(b));
    assert!(as_bool(&r1) == Some(a && b), "C09.try_and.bool_bool: boolean && boolean is the conjunction");
    let r2 = Value::Null.try_and(Value::Boolean(b));
    assert!(as_bool(&r2) == Some(false), "C09.try_and.null_lhs: null && x is false");
    let r3 = Value::Boolean(a).try_and(Value::Null);
    assert!(as_bool(&r3) == Some(false), "C09.try_and.null_rhs: boolean && null is false");
    let r4 = Value::Null.try_and(Value::Integer(i));
    assert!(as_bool(&r4) == Some(false), "C09.try_and.null_any: null && any value is false");
    let r5 = Value::Boolean(a).try_and(Value::Integer(i));
    assert!(matches!(&r5, Err(ValueError::And(..))), "C09.try_and.type_error: boolean && non-boolean is an And type error, never a control-flow error");
    let r6 = Value::Integer(i).try_and(Value::Boolean(b));
    assert!(matches!(&r6, Err(ValueError::And(..))), "C09.try_and.type_error_lhs: non-boolean && x is an And type error");
    fin!(r1, r2, r3, r4, r5, r6);
}


// ---------------------------------------------------------------- C11: division / remainder, decomposed
// Full-domain miters over two 64-bit dividers do not finish (measured: > 30 min each), so the
// contract is split: (1) classification over the FULL domain (which arm, error iff divisor zero,
// NaN never returned), (2) result equality on a restricted-mantissa domain (labelled bounded).
fn low_bits_zero(f: f64, keep: u32) -> bool {
    (f.to_bits() & ((1u64 << (52 - keep)) - 1)) == 0
}

// @unit tier=q float=1 fn=try_div,float_result
#[kani::proof]
#[kani::unwind(2)]
fn c11_float_div_class() {
    let a = any_non_nan();
    let b = any_non_nan();
    let r = flt(a).try_div(flt(b));
    if b == 0.0 {
        assert!(is_div0(&r), "C11.float.div_zero_full: division by 0.0 or -0.0 fails with divide-by-zero (all non-NaN operands)");
    } else {
        let both_inf = a.is_infinite() && b.is_infinite();
        assert!(is_nan_err(&r) == both_inf, "C11.float.div_nan_class: Float / Float fails with NaN exactly for inf/inf");
        assert!(both_inf || matches!(as_float(&r), Some(v) if !v.is_nan()), "C11.float.div_never_nan: otherwise the result is a non-NaN Float");
    }
    fin!(r);
}

// @unit tier=t float=1 fn=try_div timeout=1500 bounded="operands with at most 6 significant mantissa bits"
#[kani::proof]
#[kani::unwind(2)]
fn c11_float_div_value_bounded() {
    let a = any_non_nan();
    let b = any_non_nan();
    kani::assume(low_bits_zero(a, 6) && low_bits_zero(b, 6) && b != 0.0);
    let r = flt(a).try_div(flt(b));
    assert!(check_float_result(&r, a / b), "C11.float.div_value: Float / Float == IEEE quotient (restricted mantissas)");
    fin!(r);
}

// @unit tier=q float=1 fn=try_rem,float_result
#[kani::proof]
#[kani::unwind(2)]
fn c11_float_rem_class() {
    let a = any_non_nan();
    let b = any_non_nan();
    let r = flt(a).try_rem(flt(b));
    if b == 0.0 {
        assert!(is_div0(&r), "C11.float.rem_zero_full: remainder by 0.0 or -0.0 fails with divide-by-zero (all non-NaN operands)");
    } else {
        assert!(is_nan_err(&r) || matches!(as_float(&r), Some(v) if !v.is_nan()), "C11.float.rem_never_nan: Float % Float is a non-NaN Float or the NaN error");
    }
    fin!(r);
}

// @unit tier=q float=1 fn=try_div
#[kani::proof]
#[kani::unwind(2)]
fn c11_int_div_class() {
    let a: i64 = kani::any();
    let b: i64 = kani::any();
    let div = int(a).try_div(int(b));
    if b == 0 {
        assert!(is_div0(&div), "C11.int.div_zero_full: Integer / 0 fails with divide-by-zero");
    } else {
        assert!(matches!(as_float(&div), Some(v) if !v.is_nan()), "C11.int.div_is_float: Integer / Integer always yields a non-NaN Float");
    }
    fin!(div);
}

// @unit tier=t float=1 fn=try_div timeout=1500 bounded="|a|,|b| < 2^6"
#[kani::proof]
#[kani::unwind(2)]
fn c11_int_div_value_bounded() {
    let a: i64 = kani::any();
    let b: i64 = kani::any();
    kani::assume(a > -64 && a < 64 && b > -64 && b < 64 && b != 0);
    let div = int(a).try_div(int(b));
    assert!(as_float(&div) == Some(a as f64 / b as f64), "C11.int.div_value: Integer / Integer == (a as f64) / (b as f64) (|a|,|b| < 2^6)");
    fin!(div);
}

// @unit tier=q float=1 fn=try_rem
#[kani::proof]
#[kani::unwind(2)]
fn c11_int_rem_class() {
    let a: i64 = kani::any();
    let b: i64 = kani::any();
    let rem = int(a).try_rem(int(b));
    if b == 0 {
        assert!(is_div0(&rem), "C11.int.rem_zero_full: Integer % 0 fails with divide-by-zero");
    } else {
        assert!(as_int(&rem).is_some(), "C11.int.rem_is_int: Integer % non-zero Integer always yields an Integer (no panic at i64::MIN % -1)");
    }
    kani::cover!(a == i64::MIN && b == -1, "C11.int.cover_min_rem_neg1_b");
    fin!(rem);
}

// @unit tier=q float=1 fn=try_rem bounded="|a|,|b| < 2^15"
#[kani::proof]
#[kani::unwind(2)]
fn c11_int_rem_value_bounded() {
    let a: i64 = kani::any();
    let b: i64 = kani::any();
    kani::assume(a > -32768 && a < 32768 && b > -32768 && b < 32768 && b != 0);
    let rem = int(a).try_rem(int(b));
    assert!(as_int(&rem) == Some(a.wrapping_rem(b)), "C11.int.rem_value: Integer % Integer == wrapping truncated remainder (|a|,|b| < 2^15)");
    let r = a.wrapping_rem(b);
    assert!(r == 0 || (r < 0) == (a < 0), "C11.int.rem_sign: remainder is zero or has the sign of the dividend");
    fin!(rem);
}

// @unit tier=q float=1 fn=try_div
#[kani::proof]
#[kani::unwind(2)]
fn c11_mixed_div_class() {
    let a: i64 = kani::any();
    let b = any_non_nan();
    let r1 = int(a).try_div(flt(b));
    let r2 = flt(b).try_div(int(a));
    assert!(is_div0(&r1) == (b == 0.0), "C11.mixed.div_if_zero_full: Integer / Float fails with divide-by-zero iff the float is 0.0/-0.0");
    assert!(is_div0(&r2) == (a == 0), "C11.mixed.div_fi_zero_full: Float / Integer fails with divide-by-zero iff the integer is 0");
    assert!(b == 0.0 || is_nan_err(&r1) || matches!(as_float(&r1), Some(v) if !v.is_nan()), "C11.mixed.div_if_never_nan: Integer / Float is a non-NaN Float or the NaN error");
    assert!(a == 0 || is_nan_err(&r2) || matches!(as_float(&r2), Some(v) if !v.is_nan()), "C11.mixed.div_fi_never_nan: Float / Integer is a non-NaN Float or the NaN error");
    fin!(r1, r2);
}

// ---------------------------------------------------------------- C29: mod == try_rem (frame scan mod_delegates)
// @unit tier=q float=1 prop=C29 fn=try_rem bounded="|a|,|b| < 2^15 for the value identity"
#[kani::proof]
#[kani::unwind(2)]
fn c29_mod_int_bounded() {
    let a: i64 = kani::any();
    let b: i64 = kani::any();
    kani::assume(a > -32768 && a < 32768 && b > -32768 && b < 32768 && b != 0);
    let r = int(a).try_rem(int(b));
    let ok = match as_int(&r) {
        Some(x) => a == (a / b) * b + x && (x == 0 || (x < 0) == (a < 0)) && x.abs() < b.abs(),
        None => false,
    };
    assert!(ok, "C29.mod.truncated: mod(a, b) is the truncated remainder: a == trunc(a/b)*b + r, sign(r) follows a, |r| < |b|");
    fin!(r);
}

// @unit tier=q float=1 prop=C29 fn=try_rem
#[kani::proof]
#[kani::unwind(2)]
fn c29_mod_int_class() {
    let a: i64 = kani::any();
    let b: i64 = kani::any();
    let r = int(a).try_rem(int(b));
    if b == 0 {
        assert!(is_div0(&r), "C29.mod.zero: mod(a, 0) is the divide-by-zero error, not a panic");
    } else {
        assert!(as_int(&r).is_some(), "C29.mod.total: mod(a, b) with b != 0 yields an integer for every pair (no panic at i64::MIN % -1)");
    }
    fin!(r);
}
