// Kani contracts for /repo/src/stdlib/to_float.rs
#![allow(warnings)]
use super::*;
use crate::compiler::kani_support::*;

// @unit tier=q prop=C29 float=1 fn=to_float
#[kani::proof]
#[kani::unwind(2)]
#[kani::stub(alloc::fmt::format, stub_format)]
#[kani::stub(regex::Regex::new, stub_regex_new)]
#[kani::stub(crate::compiler::conversion::Conversion::convert, stub_conversion_convert)]
fn k_to_float_scalar() {
    let i: i64 = kani::any();
    let r1 = to_float(Value::Integer(i));
    assert!(matches!(&r1, Ok(Value::Float(x)) if x.into_inner() == (i as f64)), "C29.to_float.int: to_float of an integer is `i as f64` (so to_float(to_int(x)) == x as f64 for integers)");
    let f: f64 = kani::any();
    kani::assume(!f.is_nan());
    let r2 = to_float(Value::Float(NotNan::new(f).unwrap()));
    assert!(matches!(&r2, Ok(Value::Float(x)) if x.into_inner().to_bits() == f.to_bits()), "C29.to_float.float: to_float of a float is that float");
    let b: bool = kani::any();
    let r3 = to_float(Value::Boolean(b));
    assert!(matches!(&r3, Ok(Value::Float(x)) if x.into_inner() == (if b { 1.0 } else { 0.0 })), "C29.to_float.bool: to_float(true) == 1.0, to_float(false) == 0.0");
    let r4 = to_float(Value::Null);
    assert!(matches!(&r4, Ok(Value::Float(x)) if x.into_inner() == 0.0), "C29.to_float.null: to_float(null) == 0.0");
    core::mem::forget(r1);
    core::mem::forget(r2);
    core::mem::forget(r3);
    core::mem::forget(r4);
}

#[cfg(test)]
mod playback {
    use super::*;
    include!("/verif/.cache/playback/std_to_float.rs");
}
