// Kani contracts for /repo/src/stdlib/to_float.rs (child module via cfg(kani) hook).
#![allow(warnings)]
use super::*;
