// Kani contracts for /repo/src/compiler/expression/query.rs (child module via cfg(kani) hook).
#![allow(warnings)]
use super::*;
