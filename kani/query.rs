// src/compiler/expression/query.rs: verified by the Verus unit v_target_ops on the extracted bodies (Kani harnesses through
// Context/Result types run into the drop-glue explosion, DESIGN 1.1 rule 1b).
#![allow(warnings)]
use super::*;

#[cfg(test)]
mod playback {
    use super::*;
    include!("/verif/.cache/playback/query.rs");
}
