// Kani contracts for /repo/src/compiler/runtime.rs (child module via cfg(kani) hook).
#![allow(warnings)]
use super::*;
