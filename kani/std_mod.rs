// Kani contracts for /repo/src/stdlib/mod_func.rs (child module via cfg(kani) hook).
#![allow(warnings)]
use super::*;
