// /repo/src/stdlib/mod_func.rs: `mod(value, modulus)` is `value.try_rem(modulus)?` (frame scan
// mod_delegates); its contract is therefore try_rem's, checked in arithmetic.rs (c29_mod_*).
// A harness through `r#mod` itself runs into the ValueError->ExpressionError drop-glue explosion.
#![allow(warnings)]
use super::*;

#[cfg(test)]
mod playback {
    use super::*;
    include!("/verif/.cache/playback/std_mod.rs");
}
