// /repo/src/compiler/value/error.rs: `impl From<ValueError> for ExpressionError` is verified by the
// Verus unit v_value_error_from on its extracted body (a Kani harness on it runs into the
// Result/niche drop-glue explosion described in DESIGN section 1.1 rule 1b and times out).
#![allow(warnings)]
use super::*;

#[cfg(test)]
mod playback {
    use super::*;
    include!("/verif/.cache/playback/value_error.rs");
}
