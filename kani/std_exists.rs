// Kani contracts for /repo/src/stdlib/exists.rs (child module via cfg(kani) hook).
#![allow(warnings)]
use super::*;
