// Kani contracts for /repo/src/stdlib/abs.rs
#![allow(warnings)]
use super::*;
use crate::compiler::kani_support::*;
use ordered_float::NotNan;

// @unit tier=q prop=C29 fn=abs
#[kani::proof]
#[kani::unwind(2)]
#[kani::stub(alloc::fmt::format, stub_format)]
#[kani::stub(regex::Regex::new, stub_regex_new)]
fn k_abs_int() {
    let i: i64 = kani::any();
    let r = abs(Value::Integer(i));
    let ok = match &r {
        Ok(Value::Integer(x)) => {
            if i == i64::MIN { *x == i64::MIN } else { *x >= 0 && (*x == i || *x == -i) }
        }
        _ => false,
    };
    assert!(ok, "C29.abs.int: abs(i) is the magnitude of i; it wraps (to itself) only at the minimum integer and never panics");
    kani::cover!(i == i64::MIN, "C29.abs.cover_min");
    core::mem::forget(r);
}

// @unit tier=q prop=C29 float=1 fn=abs
#[kani::proof]
#[kani::unwind(2)]
#[kani::stub(alloc::fmt::format, stub_format)]
#[kani::stub(regex::Regex::new, stub_regex_new)]
fn k_abs_float() {
    let f: f64 = kani::any();
    kani::assume(!f.is_nan());
    let r = abs(Value::Float(NotNan::new(f).unwrap()));
    let ok = match &r {
        Ok(Value::Float(x)) => {
            let x = x.into_inner();
            x >= 0.0 && (x == f || x == -f) && !x.is_sign_negative()
        }
        _ => false,
    };
    assert!(ok, "C29.abs.float: abs(f) is |f| (non-negative, same magnitude) for every non-NaN float");
    core::mem::forget(r);
}

#[cfg(test)]
mod playback {
    use super::*;
    include!("/verif/.cache/playback/std_abs.rs");
}
