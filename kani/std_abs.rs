// Kani contracts for /repo/src/stdlib/abs.rs (child module via cfg(kani) hook).
#![allow(warnings)]
use super::*;
