// Kani contracts for /repo/src/value/kind.rs + kind/merge.rs + kind/comparison.rs — the scalar
// fragment of the type abstraction (all 2^8 x 2^8 pairs of scalar kinds, loop-free = complete).
#![allow(warnings)]
use super::*;
use ordered_float::NotNan;

fn mk(bits: u8) -> Kind {
    Kind {
        bytes: if bits & 1 != 0 { Some(()) } else { None },
        integer: if bits & 2 != 0 { Some(()) } else { None },
        float: if bits & 4 != 0 { Some(()) } else { None },
        boolean: if bits & 8 != 0 { Some(()) } else { None },
        timestamp: if bits & 16 != 0 { Some(()) } else { None },
        regex: if bits & 32 != 0 { Some(()) } else { None },
        null: if bits & 64 != 0 { Some(()) } else { None },
        undefined: if bits & 128 != 0 { Some(()) } else { None },
        array: None,
        object: None,
    }
}
fn bits_of(k: &Kind) -> u8 {
    // the flags themselves (`contains_*` treats the empty "never" kind as containing everything)
    (k.bytes.is_some() as u8)
        | (k.integer.is_some() as u8) << 1
        | (k.float.is_some() as u8) << 2
        | (k.boolean.is_some() as u8) << 3
        | (k.timestamp.is_some() as u8) << 4
        | (k.regex.is_some() as u8) << 5
        | (k.null.is_some() as u8) << 6
        | (k.undefined.is_some() as u8) << 7
}

// @unit tier=q prop=C19 fn=Kind::union,Kind::merge_keep,Kind::merge
#[kani::proof]
#[kani::unwind(2)]
fn k_kind_union_scalar() {
    let a: u8 = kani::any();
    let b: u8 = kani::any();
    let ka = mk(a);
    let u = ka.union(mk(b));
    assert!(bits_of(&u) == (a | b), "C19.union.scalar: the union of two scalar kinds contains exactly the members of both operands");
    assert!(u.array.is_none() && u.object.is_none(), "C19.union.no_collections: no collection kind appears from nowhere");
    let mut m = mk(a);
    m.merge(mk(b), merge::Strategy { collisions: merge::CollisionStrategy::Union });
    assert!(bits_of(&m) == (a | b), "C19.merge.scalar_union: merging scalar kinds (union strategy) contains every member of both operands");
    let mut m2 = mk(a);
    m2.merge(mk(b), merge::Strategy { collisions: merge::CollisionStrategy::Overwrite });
    assert!(bits_of(&m2) == (a | b), "C19.merge.scalar_overwrite: merging scalar kinds (overwrite strategy) contains every member of both operands");
    core::mem::forget(u);
    core::mem::forget(m);
    core::mem::forget(m2);
    core::mem::forget(ka);
}

// @unit tier=q prop=C19 fn=Kind::is_superset,Kind::intersects
#[kani::proof]
#[kani::unwind(2)]
fn k_kind_superset_scalar() {
    let a: u8 = kani::any();
    let b: u8 = kani::any();
    let ka = mk(a);
    let kb = mk(b);
    let r = ka.is_superset(&kb);
    assert!(r.is_ok() == ((b & !a) == 0), "C19.is_superset.scalar: the subtype test agrees with membership: a is a superset of b iff every member kind of b is one of a");
    let i = ka.intersects(&kb);
    assert!(i == ((a & b) != 0 || a == 0 || b == 0), "C19.intersects.scalar: two scalar kinds intersect iff they share a member (never intersects everything)");
    core::mem::forget(r);
    core::mem::forget(ka);
    core::mem::forget(kb);
}

// @unit tier=q prop=C19 float=1 fn=Kind::from(&Value)
#[kani::proof]
#[kani::unwind(2)]
#[kani::stub(regex::Regex::new, crate::compiler::kani_support::stub_regex_new)]
fn k_kind_of_scalar_value() {
    let i: i64 = kani::any();
    let b: bool = kani::any();
    let f: f64 = kani::any();
    kani::assume(!f.is_nan());
    let k1 = Kind::from(&Value::Integer(i));
    assert!(bits_of(&k1) == 2 && k1.array.is_none() && k1.object.is_none(), "C19.kind_of.integer: the kind of an integer value is exactly integer");
    let k2 = Kind::from(&Value::Boolean(b));
    assert!(bits_of(&k2) == 8, "C19.kind_of.boolean: the kind of a boolean value is exactly boolean");
    let k3 = Kind::from(&Value::Float(NotNan::new(f).unwrap()));
    assert!(bits_of(&k3) == 4, "C19.kind_of.float: the kind of a float value is exactly float");
    let k4 = Kind::from(&Value::Null);
    assert!(bits_of(&k4) == 64, "C19.kind_of.null: the kind of null is exactly null");
    core::mem::forget(k1);
    core::mem::forget(k2);
    core::mem::forget(k3);
    core::mem::forget(k4);
}

#[cfg(test)]
mod playback {
    use super::*;
    include!("/verif/.cache/playback/kind.rs");
}
