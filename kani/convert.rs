// Kani contracts for /repo/src/compiler/value/convert.rs: callee contract `try_boolean_ee`
// (= try_boolean, then From<ValueError>) assumed by the Verus prelude (nodes.rs).
#![allow(warnings)]
use super::*;
use crate::compiler::kani_support::*;
use crate::compiler::ExpressionError;

// @unit tier=q prop=C09 fn=try_boolean
#[kani::proof]
#[kani::unwind(2)]
#[kani::stub(alloc::fmt::format, stub_format)]
#[kani::stub(regex::Regex::new, stub_regex_new)]
fn k_try_boolean() {
    let b: bool = kani::any();
    let i: i64 = kani::any();
    let r1 = Value::Boolean(b).try_boolean();
    assert!(matches!(&r1, Ok(x) if *x == b), "C09.try_boolean.bool: a boolean converts to itself");
    let r2 = Value::Integer(i).try_boolean();
    assert!(matches!(&r2, Err(ValueError::Expected { .. })), "C09.try_boolean.int: a non-boolean is an Expected error (not ValueError::Or)");
    let r3 = Value::Null.try_boolean();
    assert!(matches!(&r3, Err(ValueError::Expected { .. })), "C09.try_boolean.null: null is an Expected error (null is not false for `if`)");
    core::mem::forget(r1);
    core::mem::forget(r2);
    core::mem::forget(r3);
}

#[cfg(test)]
mod playback {
    use super::*;
    include!("/verif/.cache/playback/convert.rs");
}
