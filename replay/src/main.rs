//! Witness search / replay against the normally compiled real crate (guard off).
//! `verif-replay <unit>` runs a small exhaustive or scripted domain through the real public API and
//! prints one JSON line per failing case; exit code 1 iff some case fails.  Used only to attach a
//! concrete failing input to an obligation the deductive verifier reports as failed.
use std::collections::BTreeMap;
use vrl::compiler::{compile, runtime::Runtime, runtime::Terminate, TargetValue, TimeZone};
use vrl::path::{OwnedSegment, OwnedValuePath};
use vrl::value::{Secrets, Value};

/// The thorough tier (VERIF_TIER=thorough, set by /verif/check) enlarges some witness domains.
fn thorough() -> bool { std::env::var("VERIF_TIER").map(|t| t == "thorough").unwrap_or(false) }

fn fail(unit: &str, case: &str, expected: &str, actual: &str) {
    println!("{}", serde_json::json!({"unit": unit, "case": case, "expected": expected, "actual": actual}));
}

fn run_vrl(src: &str, event: Value) -> Result<(Value, Value), String> {
    let fns = vrl::stdlib::all();
    let res = compile(src, &fns).map_err(|e| format!("compile error: {e:?}"))?;
    let mut target = TargetValue { value: event, metadata: Value::Object(BTreeMap::new()), secrets: Secrets::default() };
    let mut rt = Runtime::default();
    match rt.resolve(&mut target, &res.program, &TimeZone::default()) {
        Ok(v) => Ok((v, target.value)),
        Err(Terminate::Abort(e)) => Err(format!("ABORT:{e}")),
        Err(Terminate::Error(e)) => Err(format!("ERROR:{e}")),
    }
}

fn idx(i: isize) -> OwnedValuePath {
    OwnedValuePath::from(vec![OwnedSegment::index(i)])
}

fn crud_vec() -> usize {
    let mut bad = 0;
    for len in 0usize..=4 {
        for key in -7isize..=6 {
            let base: Vec<Value> = (0..len).map(|i| Value::Integer(10 + i as i64)).collect();
            {
                // removal on the original array: returns exactly what get returns, a missing index changes nothing
                let mut r = Value::Array(base.clone());
                let got = r.get(&idx(key)).cloned();
                let removed = r.remove(&idx(key), false);
                if removed != got || (got.is_none() && r != Value::Array(base.clone())) {
                    bad += 1;
                    fail("crud_vec", &format!("array {:?} remove [{}]", base, key), &format!("returns {:?} and leaves a missing index alone", got), &format!("{:?}, array now {}", removed, r));
                }
            }
            let mut v = Value::Array(base.clone());
            let before = v.get(&idx(key)).cloned();
            let old = v.insert(&idx(key), Value::Integer(99));
            let arr: Vec<Value> = v.as_array().map(|a| a.to_vec()).unwrap_or_default();
            let case = format!("array {:?} insert 99 at [{}]", base, key);
            if old != before {
                bad += 1;
                fail("crud_vec", &case, &format!("insert returns previous {:?}", before), &format!("{:?}", old));
            }
            if v.get(&idx(key)) != Some(&Value::Integer(99)) {
                bad += 1;
                fail("crud_vec", &case, "get after insert == 99", &format!("{:?} in {:?}", v.get(&idx(key)), arr));
            }
            // expected whole array (reading of the property for arrays)
            let mut exp: Vec<Value> = base.clone();
            if key >= 0 {
                let k = key as usize;
                while exp.len() <= k { exp.push(Value::Null); }
                exp[k] = Value::Integer(99);
            } else {
                let need = (-key) as usize;
                if exp.len() >= need {
                    let i = exp.len() - need;
                    exp[i] = Value::Integer(99);
                } else {
                    let mut n = vec![Value::Integer(99)];
                    n.extend(std::iter::repeat(Value::Null).take(need - exp.len() - 1));
                    n.extend(exp);
                    exp = n;
                }
            }
            if arr != exp {
                bad += 1;
                fail("crud_vec", &case, &format!("{:?}", exp), &format!("{:?}", arr));
            }
            let got = v.get(&idx(key)).cloned();
            let removed = v.remove(&idx(key), false);
            if removed != got {
                bad += 1;
                fail("crud_vec", &case, &format!("remove returns {:?}", got), &format!("{:?}", removed));
            }
        }
    }
    bad
}

/// laws over nested values and multi-segment paths (small exhaustive domain)
fn crud_paths() -> usize {
    let ev = |json: &str| -> Value { serde_json::from_str::<serde_json::Value>(json).map(Value::from).unwrap() };
    let values = [r#"{"a": {"b": 1, "c": [10, 20]}, "d": [ {"e": 5}, 7 ]}"#, r#"[[1, 2], {"a": 3}, 4]"#, r#"{"a": 1}"#, "5", "[]", "{}"];
    let segs: Vec<OwnedSegment> = vec![OwnedSegment::field("a"), OwnedSegment::field("b"), OwnedSegment::field("d"), OwnedSegment::index(0), OwnedSegment::index(1), OwnedSegment::index(-1), OwnedSegment::index(-3)];
    let mut paths: Vec<OwnedValuePath> = vec![];
    for a in &segs { paths.push(OwnedValuePath::from(vec![a.clone()])); for b in &segs { paths.push(OwnedValuePath::from(vec![a.clone(), b.clone()])); } }
    let mut bad = 0;
    for vj in values {
        for p in &paths {
            let base = ev(vj);
            let case = format!("value {} path {}", vj, p);
            // get through a non-container finds nothing: if a proper prefix reads a scalar, the path reads nothing
            let before = base.get(p).cloned();
            // remove returns what get returned
            for prune in [false, true] {
                let mut v = base.clone();
                let removed = v.remove(p, prune);
                if removed != before {
                    bad += 1;
                    fail("crud_paths", &format!("{case} remove(prune={prune})"), &format!("returns {:?}", before), &format!("{:?}", removed));
                }
                if before.is_none() && v != base {
                    bad += 1;
                    fail("crud_paths", &format!("{case} remove(prune={prune})"), "removing a missing path changes nothing", &v.to_string());
                }
            }
            // insert then get
            let mut v = base.clone();
            v.insert(p, Value::Integer(99));
            if v.get(p) != Some(&Value::Integer(99)) {
                bad += 1;
                fail("crud_paths", &format!("{case} insert 99"), "get after insert == 99", &format!("{:?} in {}", v.get(p), v));
            }
            // frame: a sibling field of the root object that the path does not start with is unchanged
            for f in ["a", "d"] {
                let sib = OwnedValuePath::from(vec![OwnedSegment::field(f)]);
                let starts_with_f = matches!(p.segments.first(), Some(OwnedSegment::Field(k)) if k.as_str() == f);
                if base.is_object() && !starts_with_f && matches!(p.segments.first(), Some(OwnedSegment::Field(_))) && v.get(&sib) != base.get(&sib) {
                    bad += 1;
                    fail("crud_paths", &format!("{case} insert 99"), &format!("sibling .{f} unchanged"), &v.to_string());
                }
            }
        }
    }
    bad
}

/// (program, expected Ok(result-as-json) or Err(prefix))
fn expect_programs(unit: &str, cases: &[(&str, Result<&str, &str>)]) -> usize {
    let mut bad = 0;
    for (src, want) in cases {
        let got = run_vrl(src, Value::Object(BTreeMap::new()));
        let ok = match (&got, want) {
            (Ok((v, _)), Ok(w)) => v.to_string() == *w,
            (Err(e), Err(w)) => e.starts_with(w),
            _ => false,
        };
        if !ok {
            bad += 1;
            let g = match &got { Ok((v, _)) => format!("Ok({v})"), Err(e) => format!("Err({e})") };
            fail(unit, src, &format!("{:?}", want), &g);
        }
    }
    bad
}

fn closure_scope() -> usize {
    // the closure parameter name is pre-bound to "outer"; after the call it must still be "outer"
    let mut cases: Vec<(String, Result<&str, &str>)> = vec![];
    for (call, pnames) in [
        ("for_each({\"a\": 2, \"b\": 0}) -> |p, q| { 10 / q }", "pq"),
        ("for_each([2, 0]) -> |p, q| { 10 / q }", "pq"),
        ("filter({\"a\": 2, \"b\": 0}) -> |p, q| { 10 / q > 1 }", "pq"),
        ("filter([2, 0]) -> |p, q| { 10 / q > 1 }", "pq"),
        ("map_keys({\"a\": 2}) -> |p| { p }", "p"),
        ("map_values({\"a\": 2, \"b\": 0}) -> |p| { 10 / p }", "p"),
        ("map_values([2, 0]) -> |p| { 10 / p }", "p"),
        ("map_values([2, 1]) -> |p| { 10 / p }", "p"),
        ("map_values([2, 1]) -> |p| { return 7 }", "p"),
        ("for_each([2, 1]) -> |p, q| { return 7 }", "pq"),
        ("for_each({\"a\": 1}) -> |p, p| { p }", "p"),
        ("for_each([5]) -> |p, p| { p }", "p"),
        ("filter({\"a\": 1}) -> |p, p| { true }", "p"),
    ] {
        let mut src = String::new();
        for c in pnames.chars() { src.push_str(&format!("{c} = \"outer\"\n")); }
        src.push_str(&format!("_r, _e = {call}\n"));
        let vars: Vec<String> = pnames.chars().map(|c| c.to_string()).collect();
        src.push_str(&format!("[{}]", vars.join(", ")));
        let _ = &mut cases;
        cases.push((src, Ok(if pnames.len() == 2 { "[\"outer\", \"outer\"]" } else { "[\"outer\"]" })));
    }
    let mut bad = 0;
    for src in ["for_each([1]) -> |_i, v| { v }\nv", "x = map_values({\"a\": 1}) -> |val| { val }\nval", "filter([1]) -> |idx, _v| { true }\nidx"] {
        if !matches!(run_vrl(src, Value::Object(BTreeMap::new())), Err(e) if e.starts_with("compile error")) {
            bad += 1;
            fail("closure_scope", src, "rejected at compile time: the closure parameter is not visible after the call", "accepted");
        }
    }
    for (src, want) in &cases {
        // `_r, _e =` is rejected when the call cannot fail: fall back to plain assignment
        let mut got = run_vrl(src, Value::Object(BTreeMap::new()));
        if matches!(&got, Err(e) if e.starts_with("compile error")) {
            let src2 = src.replace("_r, _e = ", "_r = ");
            got = run_vrl(&src2, Value::Object(BTreeMap::new()));
        }
        let ok = matches!((&got, want), (Ok((v, _)), Ok(w)) if v.to_string() == *w);
        if !ok {
            bad += 1;
            let g = match &got { Ok((v, _)) => format!("Ok({v})"), Err(e) => format!("Err({e})") };
            fail("closure_scope", src, &format!("{:?}", want), &g);
        }
    }
    bad
}

fn ctl_programs() -> usize {
    expect_programs("ctl_programs", &[
        (".r = (false || { abort })\n.", Err("ABORT")),
        (".r = (null || { abort })\n.", Err("ABORT")),
        (".r = (false || { return 5 })\n.x = 1\n.", Ok("5")),
        ("x = to_int({ abort }) ?? 3\n.r = x\n.", Err("ABORT")),
        ("x = to_int({ return 9 }) ?? 3\n.r = x\n.", Ok("9")),
        ("x, err = to_int({ abort })\n.r = [x, err]\n.", Err("ABORT")),
        ("x, err = to_int({ return 9 })\n.r = [x, err]\n.", Ok("9")),
        ("x = [1, { abort }, 3]\n.", Err("ABORT")),
        ("x = {\"a\": { return 4 }}\n.", Ok("4")),
        ("if ({ abort }) { .a = 1 }\n.", Err("ABORT")),
        ("x = (to_int(\"zz\") ?? 7)\nx", Ok("7")),
        ("x = (to_int(\"5\") ?? { abort })\nx", Ok("5")),
        ("x = (true || { abort })\nx", Ok("true")),
        ("x = (false && { abort })\nx", Ok("false")),
        ("x = (null && { abort })\nx", Ok("false")),
        ("x = (true && false)\nx", Ok("false")),
        ("x = if false { 1 }\nx", Ok("null")),
        ("x = if true { 1 } else { abort }\nx", Ok("1")),
        ("x = if false { abort } else { 2 }\nx", Ok("2")),
        ("ok, err = to_int(\"zz\")\n[ok, err != null]", Ok("[0, true]")),
        ("ok, err = to_int(\"5\")\n[ok, err]", Ok("[5, null]")),
        ("o = filter([1, 2]) -> |_i, v| { return true }\no", Ok("[1, 2]")),
        ("o = map_values([1, 2]) -> |v| { return 7 }\no", Ok("[7, 7]")),
        ("o = for_each([1, 2]) -> |_i, v| { abort }\no", Err("ABORT")),
        ("abort \"stop\"\n.", Err("ABORT:stop")),
        ("x, x.e = to_int(\"zz\")\nis_string(x.e)", Ok("true")),
        (".p, .p.e = to_int(\"zz\")\nis_string(.p.e)", Ok("true")),
        ("x, e = to_int(\"zz\")\n[x, is_string(e)]", Ok("[0, true]")),
        ("_, err = to_int({ abort })\n.after = true\n.", Err("ABORT")),
        ("_, err = to_int({ abort \"why\" })\n.after = true\n.", Err("ABORT:why")),
        ("ok, _ = to_int({ abort })\n.after = true\n.", Err("ABORT")),
        ("_, err = to_int({ return 3 })\n.after = true\n.", Ok("3")),
        ("x = [{ return 1 }, 2]\n.", Ok("1")),
        ("x = upcase(downcase({ return \"z\" }))\n.", Ok("\"z\"")),
        ("x = (to_int({ return 6 }) ?? 1) + 1\n.", Ok("6")),
        ("x = if ({ return 2 }) { 1 }\n.", Ok("2")),
        ("if ({ return 1 }; true) { 2 } else { 3 }", Ok("1")),
        ("if (.l == \"i\" || { return \"kept\" }) { .t = true } else { .t = true }\n\"dropped\"", Ok("\"kept\"")),
        ("if ({ abort }; true) { .a = 1 } else { .a = 2 }\n.", Err("ABORT")),
        ("if (.n = to_int!(\"zz\"); .c = true; true) { .b = 1 } else { .b = 2 }\n.", Err("ERROR")),
        ("if (.c = true; false) { 1 } else { .c }", Ok("true")),
        ("x = if (y = 1; y == 2) { \"a\" }\nx", Ok("null")),
        ("o = map_keys({\"a\": 1, \"b\": 2}) -> |k| { if k == \"a\" { return \"first\" }; upcase(k) }\n.after = true\n[o, .after]", Ok("[{ \"B\": 2, \"first\": 1 }, true]")),
        ("o = map_values({\"a\": 1, \"b\": 2}) -> |v| { if v == 1 { return 10 }; v }\n.after = true\n[o, .after]", Ok("[{ \"a\": 10, \"b\": 2 }, true]")),
        ("o = filter({\"a\": 1, \"b\": 2}) -> |_k, v| { if v == 1 { return false }; true }\n.after = true\n[o, .after]", Ok("[{ \"b\": 2 }, true]")),
        ("n = 0\nfor_each({\"a\": 1, \"b\": 2}) -> |_k, v| { if v == 1 { return null }; n = n + v }\nn", Ok("2")),
        ("n = 0\nfor_each([1, 2]) -> |_i, v| { if v == 1 { return null }; n = n + v }\nn", Ok("2")),
        ("o = replace_with(\"abc\", r'b') -> |m| { return \"X\" }\n.after = true\n[o, .after]", Ok("[\"aXc\", true]")),
        ("o = map_keys({\"a\": 1}) -> |k| { abort }\n.after = true\n.", Err("ABORT")),
        ("o = replace_with(\"abc\", r'b') -> |m| { abort }\n.", Err("ABORT")),
        ("x = (null || { return 4 })\n.", Ok("4")),
        ("x = (true && { abort })\n.", Err("ABORT")),
        ("x = { .a = 1; abort }\n.", Err("ABORT")),
        // control flow raised while evaluating the message of an abort is not swallowed by it
        ("abort { abort \"inner\" }", Err("ABORT:inner")),
        (".seen = true\nabort { if .seen == true { abort \"upstream failure\" } else { \"unexpected\" } }\n.after = true", Err("ABORT:upstream failure")),
        ("abort { return 5 }", Ok("5")),
        ("abort \"plain\"", Err("ABORT:plain")),
    ]) + expect_events("ctl_programs", &[
        // nothing is written once `return` / `abort` has been raised
        (".n = 7\n.n, .err = to_int({ if is_null(.v) { return \"skipped\" }; .v })\n.after = true\n\"done\"", Ok("\"skipped\""), "{ \"n\": 7 }"),
        (".n = 7\n.n, .err = to_int({ abort })\n.after = true", Err("ABORT"), "{ \"n\": 7 }"),
        (".n = 7\n.n = to_int!({ return 1 })\n.after = true", Ok("1"), "{ \"n\": 7 }"),
        (".n = 7\n.n = (5 + { return 1 }) ?? 0\n.after = true", Ok("1"), "{ \"n\": 7 }"),
        (".n = 7\n.n = [1, { return 2 }]\n.after = true", Ok("2"), "{ \"n\": 7 }"),
        (".n = 7\nif ({ return 3 }) { .n = 1 } else { .n = 2 }\n.after = true", Ok("3"), "{ \"n\": 7 }"),
    ])
}

fn expect_events(unit: &str, cases: &[(&str, Result<&str, &str>, &str)]) -> usize {
    let mut bad = 0;
    for (src, want, want_event) in cases {
        let fns = vrl::stdlib::all();
        let Ok(res) = compile(src, &fns) else { bad += 1; fail(unit, src, "compiles", "compile error"); continue };
        let mut target = TargetValue { value: Value::Object(BTreeMap::new()), metadata: Value::Object(BTreeMap::new()), secrets: Secrets::default() };
        let mut rt = Runtime::default();
        let got = match rt.resolve(&mut target, &res.program, &TimeZone::default()) {
            Ok(v) => Ok(v.to_string()),
            Err(Terminate::Abort(_)) => Err("ABORT".to_string()),
            Err(Terminate::Error(_)) => Err("ERROR".to_string()),
        };
        let ok = match (&got, want) { (Ok(g), Ok(w)) => g == w, (Err(g), Err(w)) => g == w, _ => false };
        let event = target.value.to_string();
        if !ok || event != *want_event {
            bad += 1;
            fail(unit, src, &format!("{want:?} with the event left as {want_event}"), &format!("{got:?} with the event {event}"));
        }
    }
    bad
}

fn format_int() -> usize {
    let mut cases: Vec<(String, String)> = vec![];
    for x in [0i64, 1, -1, 35, 36, -36, i64::MAX, i64::MIN, i64::MIN + 1, 255, -255] {
        for b in [2, 8, 10, 16, 36] {
            cases.push((format!("parse_int!(format_int!({} + 0, {b}), {b}) == {} + 0", lit(x), lit(x)), "true".into()));
        }
    }
    let mut bad = 0;
    for (src, want) in &cases {
        let got = std::panic::catch_unwind(|| run_vrl(src, Value::Object(BTreeMap::new())));
        let ok = matches!(&got, Ok(Ok((v, _))) if v.to_string() == *want);
        if !ok {
            bad += 1;
            fail("format_int", src, want, &format!("{:?}", got.map(|r| r.map(|(v, _)| v.to_string()))));
        }
    }
    bad
}
fn lit(x: i64) -> String {
    if x == i64::MIN { "(-9223372036854775807 - 1)".into() } else if x < 0 { format!("({x})") } else { format!("{x}") }
}

/// read-only paths: for each (read-only path, recursive, program, event) the program must either be
/// rejected at compile time or leave the value at the read-only path unchanged.
fn read_only() -> usize {
    use vrl::compiler::{compile_with_external, state::ExternalEnv, CompileConfig};
    use vrl::path::OwnedTargetPath;
    let ev = |json: &str| -> Value { serde_json::from_str::<serde_json::Value>(json).map(Value::from).unwrap() };
    let cases: Vec<(OwnedValuePath, bool, &str, &str)> = vec![
        (OwnedValuePath::from(vec![OwnedSegment::field("a"), OwnedSegment::index(0)]), false, ".a[-1] = 9", r#"{"a":[1]}"#),
        (OwnedValuePath::from(vec![OwnedSegment::field("a"), OwnedSegment::index(0)]), true, ".a[-1] = 9", r#"{"a":[1]}"#),
        (OwnedValuePath::from(vec![OwnedSegment::field("a"), OwnedSegment::index(0)]), false, ".a[-3] = 9", r#"{"a":[1]}"#),
        (OwnedValuePath::from(vec![OwnedSegment::field("a"), OwnedSegment::index(-1)]), false, ".a[0] = 9", r#"{"a":[1]}"#),
        (OwnedValuePath::from(vec![OwnedSegment::field("a"), OwnedSegment::index(-1)]), false, ".a[3] = 9", r#"{"a":[1]}"#),
        (OwnedValuePath::from(vec![OwnedSegment::field("a"), OwnedSegment::index(0)]), false, "del(.a[-1])", r#"{"a":[1]}"#),
        (OwnedValuePath::from(vec![OwnedSegment::field("a"), OwnedSegment::index(0)]), false, ".a[1] = 9", r#"{"a":[1]}"#),
        (OwnedValuePath::from(vec![OwnedSegment::field("a"), OwnedSegment::index(0)]), false, ".a[0] = 9", r#"{"a":[1]}"#),
        (OwnedValuePath::from(vec![OwnedSegment::field("a")]), true, ".a.b = 9", r#"{"a":{"b":1}}"#),
        (OwnedValuePath::from(vec![OwnedSegment::field("a"), OwnedSegment::field("b")]), false, ".a = 9", r#"{"a":{"b":1}}"#),
        (OwnedValuePath::from(vec![OwnedSegment::field("a"), OwnedSegment::field("b")]), false, "del(.a)", r#"{"a":{"b":1}}"#),
        (OwnedValuePath::from(vec![OwnedSegment::field("a"), OwnedSegment::field("b")]), false, ".a.c = 9", r#"{"a":{"b":1}}"#),
    ];
    let mut bad = 0;
    // several entries, registered in order; the LAST one is the location that must stay unchanged
    let f = |names: &[&str]| OwnedValuePath::from(names.iter().map(|n| OwnedSegment::field(n)).collect::<Vec<_>>());
    let multi: Vec<(Vec<(OwnedValuePath, bool)>, &str, &str)> = vec![
        (vec![(f(&["tags", "host"]), false), (f(&["tags"]), true)], ".tags.env = \"prod\"", r#"{"tags":{"host":"h","env":"dev"}}"#),
        (vec![(f(&["tags", "host"]), false), (f(&["tags"]), true)], "del(.tags.env)", r#"{"tags":{"host":"h","env":"dev"}}"#),
        (vec![(f(&["tags"]), false), (f(&["tags"]), true)], ".tags.env = \"prod\"", r#"{"tags":{"host":"h","env":"dev"}}"#),
        (vec![(f(&["tags"]), true), (f(&["tags", "host"]), false)], ".tags.host = \"x\"", r#"{"tags":{"host":"h","env":"dev"}}"#),
        (vec![(f(&["a"]), true), (f(&["b"]), true)], ".b.c = 1", r#"{"a":{},"b":{"c":0}}"#),
    ];
    for (entries, src, event) in multi {
        let mut config = CompileConfig::default();
        for (p, r) in &entries { config.set_read_only_path(OwnedTargetPath::event(p.clone()), *r); }
        let fns = vrl::stdlib::all();
        let (ro, recursive) = entries.last().unwrap().clone();
        let case = format!("read-only entries {:?} (in this order) program `{}` event {}", entries.iter().map(|(p, r)| format!("{}{}", p, if *r { " recursive" } else { "" })).collect::<Vec<_>>(), src, event);
        let Ok(res) = compile_with_external(src, &fns, &ExternalEnv::default(), config) else { continue };
        let before = ev(event);
        let want = before.get(&ro).cloned();
        let mut target = TargetValue { value: before, metadata: Value::Object(BTreeMap::new()), secrets: Secrets::default() };
        let mut rt = Runtime::default();
        let _ = rt.resolve(&mut target, &res.program, &TimeZone::default());
        let got = target.value.get(&ro).cloned();
        if got != want && recursive {
            bad += 1;
            fail("read_only", &case, &format!("value at read-only path stays {:?}", want), &format!("{:?}", got));
        }
    }
    for (ro, recursive, src, event) in cases {
        let mut config = CompileConfig::default();
        config.set_read_only_path(OwnedTargetPath::event(ro.clone()), recursive);
        let fns = vrl::stdlib::all();
        let case = format!("read-only {}{} program `{}` event {}", ro, if recursive { " (recursive)" } else { "" }, src, event);
        let Ok(res) = compile_with_external(src, &fns, &ExternalEnv::default(), config) else { continue };
        let before = ev(event);
        let want = before.get(&ro).cloned();
        let mut target = TargetValue { value: before, metadata: Value::Object(BTreeMap::new()), secrets: Secrets::default() };
        let mut rt = Runtime::default();
        let _ = rt.resolve(&mut target, &res.program, &TimeZone::default());
        let got = target.value.get(&ro).cloned();
        if got != want {
            bad += 1;
            fail("read_only", &case, &format!("value at read-only path stays {:?}", want), &format!("{:?} (event now {})", got, target.value));
        }
    }
    bad
}

/// compile-time constants: each program must either be rejected by the compiler or run without
/// a runtime error (none of them contains `!` or abort).
fn constants() -> usize {
    let progs = [
        "x = {\"b\": 1}\nx.a = 2\n.r = 10 / x\n.",
        "x = {\"a\": 2}\ndel(x.a)\n.r = 10 / x.a\n.",
        "x = {\"a\": 2}\ndel(x.a)\n.r = x.a + 1\n.",
        "x = {\"a\": 2, \"b\": 4}\ndel(x.a)\n.r = 10 / x.b\n.",
        "x = 2\n.r = 10 / x\n.",
        "x = 2\nx = 0\n.r = 10 / x\n.",
        "x = 2\nif .c == 1 { x = 0 }\n.r = 10 / x\n.",
        "x = [2, 3]\nx[0] = 0\n.r = 10 / x[0]\n.",
        "x = 4\ny = x\nx = 0\n.r = 10 / y\n.",
        "x = 0\nif .c == 1 { x = 4 }\n.r = 10 / x\n.",
        "x = 4\nif .c == 1 { x = 0 }\n.r = 10 / x\n.",
        "x = 0\nif .c == 1 { x = 4 } else { x = 0 }\n.r = 10 / x\n.",
        "x = 5\ny = (.a == 1) && { x = 0; true }\n.r = 10 / x\n.",
        "x = 0\ny = (.a == 1) && { x = 5; true }\n.r = 10 / x\n.",
        "x = 0\ny = (.a != 1) || { x = 5; true }\n.r = 10 / x\n.",
        "x = 0\ny = to_int(.a) ?? { x = 5; 1 }\n.r = 10 / x\n.",
    ];
    let mut bad = 0;
    for src in progs {
        match run_vrl(src, Value::Object(BTreeMap::new())) {
            Ok(_) => {}
            Err(e) if e.starts_with("compile error") => {}
            Err(e) => {
                bad += 1;
                fail("constants", src, "rejected at compile time or runs without a runtime error", &e);
            }
        }
    }
    bad
}

/// A target that rejects chosen operations on one path (everything else is delegated).
#[derive(Debug)]
struct Faulty {
    inner: TargetValue,
    fail_get: bool,
    fail_insert: bool,
    fail_remove: bool,
    fail_root: bool,
    /// root reads succeed this many times, then are rejected (None = never rejected this way)
    root_reads_left: std::cell::Cell<Option<usize>>,
}
impl vrl::compiler::SecretTarget for Faulty {
    fn get_secret(&self, key: &str) -> Option<&str> { self.inner.get_secret(key) }
    fn insert_secret(&mut self, key: &str, value: &str) { self.inner.insert_secret(key, value) }
    fn remove_secret(&mut self, key: &str) { self.inner.remove_secret(key) }
}
impl vrl::compiler::Target for Faulty {
    fn target_insert(&mut self, path: &vrl::path::OwnedTargetPath, value: Value) -> Result<(), String> {
        if self.fail_insert { return Err("rejected".into()); }
        self.inner.target_insert(path, value)
    }
    fn target_get(&self, path: &vrl::path::OwnedTargetPath) -> Result<Option<&Value>, String> {
        if path.path.is_root() {
            if self.fail_root { return Err("rejected".into()); }
            if let Some(n) = self.root_reads_left.get() {
                if n == 0 { return Err("rejected".into()); }
                self.root_reads_left.set(Some(n - 1));
            }
            return self.inner.target_get(path);
        }
        if self.fail_get { return Err("rejected".into()); }
        self.inner.target_get(path)
    }
    fn target_get_mut(&mut self, path: &vrl::path::OwnedTargetPath) -> Result<Option<&mut Value>, String> {
        if self.fail_get && !path.path.is_root() { return Err("rejected".into()); }
        self.inner.target_get_mut(path)
    }
    fn target_remove(&mut self, path: &vrl::path::OwnedTargetPath, compact: bool) -> Result<Option<Value>, String> {
        if self.fail_remove { return Err("rejected".into()); }
        self.inner.target_remove(path, compact)
    }
}

/// target faults: (program, which op fails, expected result, event must be unchanged?)
fn target_faults() -> usize {
    let ev = |json: &str| -> Value { serde_json::from_str::<serde_json::Value>(json).map(Value::from).unwrap() };
    // (program, fail_get, fail_insert, fail_remove, fail_root, expected Ok(result) / Err(prefix), event unchanged)
    let cases: Vec<(&str, bool, bool, bool, bool, Result<&str, &str>, bool)> = vec![
        (".foo", true, false, false, false, Ok("null"), true),
        ("exists(.foo)", true, false, false, false, Ok("false"), true),
        ("if exists(.foo) { \"present\" } else { \"missing\" }", true, false, false, false, Ok("\"missing\""), true),
        ("exists(.foo)", false, false, false, false, Ok("true"), true),
        (".foo = 2\n.foo", false, true, false, false, Ok("1"), true),
        ("x = (.foo = 2)\nx", false, true, false, false, Ok("2"), true),
        ("del(.foo)", false, false, true, false, Ok("null"), true),
        ("del(.foo)", false, false, false, false, Ok("1"), false),
        (".bar = .foo\n.bar", true, false, false, false, Ok("null"), false),
        (".foo", false, false, false, true, Err("ERROR"), true),
        ("abort", false, false, false, true, Err("ERROR"), true),
    ];
    let mut bad = 0;
    for (src, fg, fi, fr, froot, want, unchanged) in cases {
        let fns = vrl::stdlib::all();
        let Ok(res) = compile(src, &fns) else { bad += 1; fail("target_faults", src, "compiles", "compile error"); continue };
        let before = ev(r#"{"foo": 1}"#);
        let mut t = Faulty { inner: TargetValue { value: before.clone(), metadata: Value::Object(BTreeMap::new()), secrets: Secrets::default() },
                             fail_get: fg, fail_insert: fi, fail_remove: fr, fail_root: froot, root_reads_left: std::cell::Cell::new(None) };
        let mut rt = Runtime::default();
        let got = std::panic::catch_unwind(std::panic::AssertUnwindSafe(|| rt.resolve(&mut t, &res.program, &TimeZone::default())));
        let case = format!("program `{}` on {{\"foo\": 1}} with target rejecting get={} insert={} remove={} root={}", src, fg, fi, fr, froot);
        let ok = match (&got, &want) {
            (Ok(Ok(v)), Ok(w)) => v.to_string() == *w,
            (Ok(Err(Terminate::Error(_))), Err(w)) => *w == "ERROR",
            (Ok(Err(Terminate::Abort(_))), Err(w)) => *w == "ABORT",
            _ => false,
        };
        if !ok {
            bad += 1;
            let g = match &got { Ok(Ok(v)) => format!("Ok({v})"), Ok(Err(e)) => format!("Err({e:?})"), Err(_) => "PANIC".to_string() };
            fail("target_faults", &case, &format!("{:?}", want), &g);
        }
        if unchanged && t.inner.value != before {
            bad += 1;
            fail("target_faults", &case, "event unchanged", &t.inner.value.to_string());
        }
    }
    // the root is readable when the run starts but rejected later (unnest re-reads the root)
    for src in ["unnest!(.foo)", "x = unnest(.foo) ?? []\nx", ".", "x = encode_json(.)\nx", "exists(.)", ".a = .\n.a", "%", "del(.)", "x = .\nexists(.foo)"] {
        let fns = vrl::stdlib::all();
        let Ok(res) = compile(src, &fns) else { bad += 1; fail("target_faults", src, "compiles", "compile error"); continue };
        let before = ev(r#"{"foo": [1, 2]}"#);
        let mut t = Faulty { inner: TargetValue { value: before.clone(), metadata: Value::Object(BTreeMap::new()), secrets: Secrets::default() },
                             fail_get: false, fail_insert: false, fail_remove: false, fail_root: false, root_reads_left: std::cell::Cell::new(Some(1)) };
        let mut rt = Runtime::default();
        let got = std::panic::catch_unwind(std::panic::AssertUnwindSafe(|| rt.resolve(&mut t, &res.program, &TimeZone::default())));
        if got.is_err() {
            bad += 1;
            fail("target_faults", &format!("program `{}` on {{\"foo\": [1, 2]}} with a target whose root read is rejected after the first read", src), "no panic (an error or a value)", "PANIC");
        }
    }
    bad
}

/// A target that records every path it is asked to read / write / delete.
#[derive(Debug)]
struct Recording {
    inner: TargetValue,
    reads: std::cell::RefCell<Vec<vrl::path::OwnedTargetPath>>,
    writes: Vec<vrl::path::OwnedTargetPath>,
}
impl vrl::compiler::SecretTarget for Recording {
    fn get_secret(&self, key: &str) -> Option<&str> { self.inner.get_secret(key) }
    fn insert_secret(&mut self, key: &str, value: &str) { self.inner.insert_secret(key, value) }
    fn remove_secret(&mut self, key: &str) { self.inner.remove_secret(key) }
}
impl vrl::compiler::Target for Recording {
    fn target_insert(&mut self, path: &vrl::path::OwnedTargetPath, value: Value) -> Result<(), String> {
        self.writes.push(path.clone());
        self.inner.target_insert(path, value)
    }
    fn target_get(&self, path: &vrl::path::OwnedTargetPath) -> Result<Option<&Value>, String> {
        self.reads.borrow_mut().push(path.clone());
        self.inner.target_get(path)
    }
    fn target_get_mut(&mut self, path: &vrl::path::OwnedTargetPath) -> Result<Option<&mut Value>, String> {
        self.reads.borrow_mut().push(path.clone());
        self.inner.target_get_mut(path)
    }
    fn target_remove(&mut self, path: &vrl::path::OwnedTargetPath, compact: bool) -> Result<Option<Value>, String> {
        self.reads.borrow_mut().push(path.clone());
        self.inner.target_remove(path, compact)
    }
}

/// every runtime read is covered by a reported query, every runtime write by a reported assignment
fn reported_paths() -> usize {
    let ev = |json: &str| -> Value { serde_json::from_str::<serde_json::Value>(json).map(Value::from).unwrap() };
    let covered = |list: &[vrl::path::OwnedTargetPath], p: &vrl::path::OwnedTargetPath| list.iter().any(|q| q.can_start_with(p) || p.can_start_with(q));
    let progs = [
        ".out = [.foo, %foo]",
        ".out = [%bar.baz, .bar.baz]",
        ".a = .foo\n.b = del(%foo)",
        ".a = exists(.message)\n.b = %message",
        ".x = 1\n%y = 2\n.z = .x",
        ".a, .b = to_int(.c)",
        ".a, %b = to_int(.c)",
        "%a, %a = to_int(.c)",
        ".p.q = .p.r\ndel(.p.q)",
        "x = .foo\n.foo = x\n.foo = x",
        ".a = .foo\n.b = .foo\n.c = %foo",
    ];
    let mut bad = 0;
    for src in progs {
        let fns = vrl::stdlib::all();
        let Ok(res) = compile(src, &fns) else { bad += 1; fail("reported_paths", src, "compiles", "compile error"); continue };
        let info = res.program.info();
        let mut t = Recording { inner: TargetValue { value: ev(r#"{"foo": 1, "bar": {"baz": 2}, "message": "m", "c": "5", "p": {"r": 1}}"#),
                                metadata: ev(r#"{"foo": 3, "bar": {"baz": 4}, "message": "mm"}"#), secrets: Secrets::default() },
                                reads: std::cell::RefCell::new(vec![]), writes: vec![] };
        let mut rt = Runtime::default();
        let _ = rt.resolve(&mut t, &res.program, &TimeZone::default());
        for p in t.reads.borrow().iter() {
            if p.path.is_root() { continue; } // the runtime's own root check
            if !covered(&info.target_queries, p) {
                bad += 1;
                fail("reported_paths", src, &format!("read of {} covered by target_queries", p), &format!("{:?}", info.target_queries.iter().map(|q| q.to_string()).collect::<Vec<_>>()));
            }
        }
        for p in t.writes.iter() {
            if !covered(&info.target_assignments, p) {
                bad += 1;
                fail("reported_paths", src, &format!("write of {} covered by target_assignments", p), &format!("{:?}", info.target_assignments.iter().map(|q| q.to_string()).collect::<Vec<_>>()));
            }
        }
    }
    bad
}

/// Operator typing over a small exhaustive domain: operand kinds are all non-empty subsets of
/// {bytes, integer, float, boolean, null} declared for two event fields; for every operator whose
/// expression the compiler accepts as infallible, every combination of member values must run without
/// a runtime error (NaN excepted) and produce a value inside the reported kind.
fn op_typing() -> usize {
    use vrl::compiler::{compile_with_external, state::ExternalEnv, CompileConfig};
    use vrl::value::kind::Collection;
    use vrl::value::Kind;
    let members: Vec<(fn() -> Kind, Value)> = vec![
        (Kind::bytes, Value::from("s")), (Kind::integer, Value::Integer(0)), (Kind::float, Value::from_f64_or_zero(1.5)),
        (Kind::boolean, Value::Boolean(false)), (Kind::null, Value::Null),
    ];
    let extra: Vec<Vec<Value>> = vec![vec![Value::from("")], vec![Value::Integer(7), Value::Integer(-3)], vec![Value::from_f64_or_zero(0.0), Value::from_f64_or_zero(-2.0)], vec![Value::Boolean(true)], vec![]];
    let kind_of = |mask: u32| -> Kind { let mut k = Kind::never(); for (i, (f, _)) in members.iter().enumerate() { if mask & (1 << i) != 0 { k = k.union(f()); } } k };
    let values_of = |mask: u32| -> Vec<Value> {
        let mut v = vec![];
        for (i, (_, val)) in members.iter().enumerate() { if mask & (1 << i) != 0 { v.push(val.clone()); v.extend(extra[i].iter().cloned()); } }
        v
    };
    let ops = ["+", "-", "*", "/", "==", "!=", "<", "<=", ">", ">=", "||", "&&"];
    let fns = vrl::stdlib::all();
    let mut bad = 0;
    for op in ops {
        for m1 in 1u32..32 {
            for m2 in 1u32..32 {
                let mut known = BTreeMap::new();
                known.insert("a".into(), kind_of(m1));
                known.insert("b".into(), kind_of(m2));
                let target = Kind::object(Collection::from_parts(known, Kind::undefined()));
                let external = ExternalEnv::new_with_kind(target, Kind::object(Collection::empty()));
                let src = format!(".r = .a {op} .b\n.r");
                let Ok(res) = compile_with_external(&src, &fns, &external, CompileConfig::default()) else { continue };
                let info = res.program.final_type_info();
                let reported = info.result.kind().clone();
                for v1 in values_of(m1) {
                    for v2 in values_of(m2) {
                        let mut obj = BTreeMap::new();
                        obj.insert("a".into(), v1.clone());
                        obj.insert("b".into(), v2.clone());
                        let mut target = TargetValue { value: Value::Object(obj), metadata: Value::Object(BTreeMap::new()), secrets: Secrets::default() };
                        let mut rt = Runtime::default();
                        let case = format!("`.r = .a {op} .b` with .a: {} = {v1}, .b: {} = {v2}", kind_of(m1), kind_of(m2));
                        match rt.resolve(&mut target, &res.program, &TimeZone::default()) {
                            Ok(v) => {
                                if reported.is_superset(&Kind::from(&v)).is_err() {
                                    bad += 1;
                                    if bad <= 12 { fail("op_typing", &case, &format!("result inside the reported kind `{reported}`"), &v.to_string()); }
                                }
                            }
                            Err(e) => {
                                let msg = e.to_string();
                                if !msg.contains("NaN") {
                                    bad += 1;
                                    if bad <= 12 { fail("op_typing", &case, "accepted without error handling, so it must not fail at runtime", &msg); }
                                }
                            }
                        }
                    }
                }
            }
        }
    }
    // scripted programs whose operands change variables: accepted without error handling => every run
    // succeeds with a result inside the reported kind (a compile error is an acceptable outcome)
    let scripted: &[(&str, &[&str])] = &[
        ("x = 2\ny = (x = 0) / x\ny", &["{}"]),
        ("x = 2\ny = { x = 0; 10 } / x\ny", &["{}"]),
        ("x = 2.5\n(x = 0.0) / x", &["{}"]),
        ("x = 4\nx = 2\n.out = ({ x = x - 2; 7 }) / x", &["{}"]),
        ("x = 0\ny = (x = 2) / x\ny", &["{}"]),
        ("x = true\nif .flag == true { x = false }\n.r = x || 5\n.r", &["{\"flag\": false}", "{\"flag\": true}"]),
        ("x = null\nif .flag == true { x = false } else { x = true }\n.r = x || \"fallback\"\n.r", &["{\"flag\": false}", "{\"flag\": true}"]),
        ("x = false\nif .flag == true { x = true }\n.r = x && 5 == 5\n.r", &["{\"flag\": false}", "{\"flag\": true}"]),
        ("x = 1\nif .flag == true { x = 0 }\n.r = 10 / x\n.r", &["{\"flag\": false}", "{\"flag\": true}"]),
        ("x = 1\nif .flag == true { x = \"s\" }\n.r = x\n.r", &["{\"flag\": false}", "{\"flag\": true}"]),
    ];
    for (src, events) in scripted {
        let Ok(res) = compile(src, &fns) else { continue };
        let reported = res.program.final_type_info().result.kind().clone();
        for ev in *events {
            let event: Value = serde_json::from_str::<serde_json::Value>(ev).expect("json").into();
            let mut target = TargetValue { value: event, metadata: Value::Object(BTreeMap::new()), secrets: Secrets::default() };
            let mut rt = Runtime::default();
            let case = format!("`{}` on {ev}", src.replace('\n', "; "));
            match rt.resolve(&mut target, &res.program, &TimeZone::default()) {
                Ok(v) => {
                    if reported.is_superset(&Kind::from(&v)).is_err() {
                        bad += 1;
                        fail("op_typing", &case, &format!("result inside the reported kind `{reported}`"), &v.to_string());
                    }
                }
                Err(e) => {
                    bad += 1;
                    fail("op_typing", &case, "accepted without error handling, so it must not fail at runtime", &e.to_string());
                }
            }
        }
    }
    bad
}

fn string_arith() -> usize {
    expect_programs("string_arith", &[
        ("\"ab\" + \"cd\"", Ok("\"abcd\"")),
        ("\"ab\" + null", Ok("\"ab\"")),
        ("null + \"cd\"", Ok("\"cd\"")),
        ("\"\" + \"\"", Ok("\"\"")),
        ("\"ab\" * 3", Ok("\"ababab\"")),
        ("3 * \"ab\"", Ok("\"ababab\"")),
        ("\"ab\" * 0", Ok("\"\"")),
        ("\"ab\" * -2", Ok("\"\"")),
        ("-1 * \"ab\"", Ok("\"\"")),
        ("\"ab\" * 1", Ok("\"ab\"")),
    ])
}

struct Prog { program: vrl::compiler::Program }
impl Prog {
    fn new(src: &str) -> Self {
        let fns = vrl::stdlib::all();
        Prog { program: compile(src, &fns).unwrap_or_else(|e| panic!("witness program does not compile: {src}: {e:?}")).program }
    }
    fn run(&self, event: Value) -> Result<Value, String> {
        let mut target = TargetValue { value: event, metadata: Value::Object(BTreeMap::new()), secrets: Secrets::default() };
        let mut rt = Runtime::default();
        match rt.resolve(&mut target, &self.program, &TimeZone::default()) {
            Ok(v) => Ok(v),
            Err(Terminate::Abort(e)) => Err(format!("ABORT:{e}")),
            Err(Terminate::Error(e)) => Err(format!("ERROR:{e}")),
        }
    }
}

fn obj(pairs: Vec<(&str, Value)>) -> Value {
    Value::Object(pairs.into_iter().map(|(k, v)| (k.into(), v)).collect())
}

fn ref_merge(a: &Value, b: &Value, deep: bool) -> Value {
    let (Value::Object(a), Value::Object(b)) = (a, b) else { unreachable!() };
    let mut r = a.clone();
    for (k, vb) in b {
        let merged = match (deep, a.get(k), vb) {
            (true, Some(va @ Value::Object(_)), Value::Object(_)) => ref_merge(va, vb, deep),
            _ => vb.clone(),
        };
        r.insert(k.clone(), merged);
    }
    Value::Object(r)
}

/// C28 stand-in / witness: slice against positional indexing, length against the container,
/// merge against the reference law, on small exhaustive domains through the real stdlib functions.
fn collection_laws() -> usize {
    let mut bad = 0;
    let slice3 = Prog::new("slice!(.a, int!(.s), int!(.e))");
    let slice2 = Prog::new("slice!(.a, int!(.s))");
    let length = Prog::new("length!(.a)");
    let mut inputs: Vec<Value> = vec![];
    for n in 0..=4i64 {
        inputs.push(Value::Array((0..n).map(|i| Value::Integer(10 + i)).collect()));
        inputs.push(Value::from((0..n).map(|i| (b'a' + i as u8) as char).collect::<String>()));
    }
    for a in &inputs {
        let len = match a { Value::Array(v) => v.len() as i64, Value::Bytes(b) => b.len() as i64, _ => 0 };
        let got = length.run(obj(vec![("a", a.clone())]));
        if got != Ok(Value::Integer(len)) {
            bad += 1;
            fail("collection_laws", &format!("length({a})"), &len.to_string(), &format!("{got:?}"));
        }
        for s in -6..=6i64 {
            for e in (-6..=6i64).map(Some).chain([None]) {
                let ns = if s < 0 { s + len } else { s };
                let ne = match e { Some(e) if e < 0 => e + len, Some(e) => e, None => len };
                let want: Option<Value> = if ns < 0 || ns > len || ne < ns { None } else {
                    let hi = ne.min(len) as usize;
                    Some(match a {
                        Value::Array(v) => Value::Array(v[ns as usize..hi].to_vec()),
                        Value::Bytes(b) => Value::Bytes(b.slice(ns as usize..hi)),
                        _ => unreachable!(),
                    })
                };
                let got = match e {
                    Some(e) => slice3.run(obj(vec![("a", a.clone()), ("s", s.into()), ("e", e.into())])),
                    None => slice2.run(obj(vec![("a", a.clone()), ("s", s.into())])),
                };
                let ok = match (&got, &want) { (Ok(g), Some(w)) => g == w, (Err(_), None) => true, _ => false };
                if !ok {
                    bad += 1;
                    fail("collection_laws", &format!("slice({a}, {s}, {e:?})"), &format!("{want:?}"), &format!("{got:?}"));
                }
            }
        }
    }
    let leaves = || vec![
        Value::Integer(1), Value::from("x"), obj(vec![]), obj(vec![("a", Value::Integer(7))]),
        obj(vec![("a", obj(vec![("b", Value::Integer(2))]))]), obj(vec![("b", Value::Integer(3))]),
        obj(vec![("a", obj(vec![("c", Value::Integer(4))])), ("b", Value::from("y"))]),
    ];
    let mut objects: Vec<Value> = vec![obj(vec![])];
    for va in leaves() {
        objects.push(obj(vec![("a", va.clone())]));
        for vb in leaves() {
            objects.push(obj(vec![("a", va.clone()), ("b", vb)]));
        }
    }
    let merge = Prog::new("merge(object!(.a), object!(.b), deep: bool!(.d))");
    for a in &objects {
        let got = length.run(obj(vec![("a", a.clone())]));
        let Value::Object(m) = a else { unreachable!() };
        if got != Ok(Value::Integer(m.len() as i64)) {
            bad += 1;
            fail("collection_laws", &format!("length({a})"), &m.len().to_string(), &format!("{got:?}"));
        }
        for b in &objects {
            for deep in [false, true] {
                let want = ref_merge(a, b, deep);
                let got = merge.run(obj(vec![("a", a.clone()), ("b", b.clone()), ("d", deep.into())]));
                if got.as_ref() != Ok(&want) {
                    bad += 1;
                    if bad < 20 { fail("collection_laws", &format!("merge({a}, {b}, deep: {deep})"), &want.to_string(), &format!("{got:?}")); }
                }
            }
        }
    }
    bad
}

const FORMAT_NUMBER_CASES: &[(&str, Option<i64>)] = &[
    ("1.5", None), ("1.5", Some(-1)), ("1.5", Some(i64::MIN)), ("1.5", Some(0)), ("1.5", Some(3)), ("1.25", Some(1)),
    ("100", Some(-7)), ("100", Some(2)), ("-3", Some(-1)),
    ("to_float!(\"inf\")", None), ("to_float!(\"-inf\")", Some(2)), ("to_float!(\"1e30\")", Some(1)), ("to_float!(\"-1e300\")", None),
    ("to_float!(\"7.9e27\")", Some(2)),
];

/// One case, in this process (may panic or never return: only ever run as a watched child).
fn format_number_case(i: usize) -> usize {
    let (v, scale) = FORMAT_NUMBER_CASES[i];
    let src = match scale { Some(s) => format!("format_number({v}, scale: {})", lit(s)), None => format!("format_number({v})") };
    match run_vrl(&src, Value::Object(BTreeMap::new())) {
        Ok((Value::Bytes(b), _)) => {
            let text = String::from_utf8_lossy(&b).into_owned();
            let frac = text.split_once('.').map(|(_, f)| f.len() as i64);
            let ok = match scale { Some(s) if s <= 0 => frac.is_none(), Some(s) => frac == Some(s), None => true };
            if !ok {
                fail("format_number", &src, &format!("exactly max(scale, 0) fraction digits"), &text);
                return 1;
            }
            0
        }
        other => { fail("format_number", &src, "Ok(string)", &format!("{other:?}")); 1 }
    }
}

/// C04/C05 witness: every case runs in a child process under a 10 s watchdog and a 2 GB address-space
/// limit, so a panic, a hang or unbounded growth of the real function is observed, not suffered.
fn format_number() -> usize {
    let exe = std::env::current_exe().expect("own path");
    let mut bad = 0;
    for (i, (v, scale)) in FORMAT_NUMBER_CASES.iter().enumerate() {
        let mut child = std::process::Command::new("sh")
            .arg("-c").arg(format!("ulimit -v 2000000; exec {} format_number_case {}", exe.display(), i))
            .stderr(std::process::Stdio::piped()).spawn().expect("spawn");
        let t0 = std::time::Instant::now();
        let status = loop {
            match child.try_wait().expect("wait") {
                Some(st) => break Some(st),
                None if t0.elapsed().as_secs() >= 10 => { let _ = child.kill(); let _ = child.wait(); break None; }
                None => std::thread::sleep(std::time::Duration::from_millis(20)),
            }
        };
        let case = format!("format_number({v}, scale: {scale:?})");
        match status {
            None => { bad += 1; fail("format_number", &case, "returns promptly", "still running after 10 s (killed)"); }
            Some(st) if st.code() == Some(0) => {}
            Some(st) if st.code() == Some(1) => { bad += 1; }
            Some(st) => {
                bad += 1;
                let mut err = String::new();
                if let Some(mut e) = child.stderr.take() { use std::io::Read; let _ = e.read_to_string(&mut err); }
                let line = err.lines().find(|l| l.contains("panicked") || l.contains("memory allocation")).unwrap_or("").to_string();
                fail("format_number", &case, "returns a string", &format!("process ended with {st}: {line}"));
            }
        }
    }
    bad
}

/// C08/C01 witness: `ok, err = e` -- after a run, the values stored in ok and err belong to the kinds
/// the compiler reports for them in the final event type, for operands that make e fail or succeed.
fn assign_typing() -> usize {
    use vrl::compiler::{compile_with_external, state::ExternalEnv, CompileConfig};
    use vrl::value::kind::Collection;
    use vrl::value::Kind;
    use vrl::path::{parse_value_path, PathPrefix};
    let fns = vrl::stdlib::all();
    let mut bad = 0;
    let kinds: Vec<(&str, Kind, Vec<Value>)> = vec![
        ("any", Kind::any(), vec![Value::Boolean(true), Value::Integer(1), Value::from("s"), Value::Null]),
        ("integer", Kind::integer(), vec![Value::Integer(0), Value::Integer(5)]),
        ("integer|bytes", Kind::integer().or_bytes(), vec![Value::Integer(2), Value::from("x")]),
        ("boolean", Kind::boolean(), vec![Value::Boolean(false)]),
    ];
    let exprs = [".a + .b", ".a * .b", ".a / .b", ".a - .b", "to_int(.a) ?? to_float(.b)", "to_string(.a)", "(.a + .b) ?? .a",
                 "parse_url(.a)", "parse_json(.a)", "parse_key_value(.a)", "split(.a, \",\")", "parse_regex(.a, r'(?P<x>a)')", "slice(.a, 1)", "merge(.a, .b)", "parse_duration(.a, \"s\")"];
    let mut checked = 0;
    for e in exprs {
        for (n1, k1, v1s) in &kinds {
            for (n2, k2, v2s) in &kinds {
                let mut known = BTreeMap::new();
                known.insert("a".into(), k1.clone());
                known.insert("b".into(), k2.clone());
                let target = Kind::object(Collection::from_parts(known, Kind::undefined()));
                let external = ExternalEnv::new_with_kind(target, Kind::object(Collection::empty()));
                let src = format!(".ok, .err = {e}\n.ok");
                let Ok(res) = compile_with_external(&src, &fns, &external, CompileConfig::default()) else { continue };
                let info = res.program.final_type_info();
                let tk = info.state.external.kind(PathPrefix::Event);
                let ok_kind = tk.at_path(&parse_value_path("ok").expect("path"));
                let err_kind = tk.at_path(&parse_value_path("err").expect("path"));
                for v1 in v1s {
                    for v2 in v2s {
                        let mut obj = BTreeMap::new();
                        obj.insert("a".into(), v1.clone());
                        obj.insert("b".into(), v2.clone());
                        let mut target = TargetValue { value: Value::Object(obj), metadata: Value::Object(BTreeMap::new()), secrets: Secrets::default() };
                        let mut rt = Runtime::default();
                        let case = format!("`.ok, .err = {e}` with .a: {n1} = {v1}, .b: {n2} = {v2}");
                        checked += 1;
                        if rt.resolve(&mut target, &res.program, &TimeZone::default()).is_err() { continue }
                        let Value::Object(o) = &target.value else { continue };
                        for (name, kind) in [("ok", &ok_kind), ("err", &err_kind)] {
                            let stored = o.get(name).cloned().unwrap_or(Value::Null);
                            if !member(&stored, kind) {
                                bad += 1;
                                if bad <= 12 { fail("assign_typing", &case, &format!(".{name} inside its reported kind `{kind}`"), &stored.to_string()); }
                            }
                        }
                    }
                }
            }
        }
    }
    eprintln!("assign_typing: {checked} runs checked");
    if checked < 100 { fail("assign_typing", "witness domain", "at least 100 accepted program runs", &checked.to_string()); bad += 1; }
    bad
}

/// C03 witness: the value a stdlib call returns belongs to the kind the compiler reports for the call
/// (slice on literal arrays of mixed element kinds, every in-range start/end).
fn stdlib_types() -> usize {
    use vrl::value::Kind;
    let fns = vrl::stdlib::all();
    let mut bad = 0;
    let arrays = ["[1, \"a\"]", "[1, \"a\", true]", "[\"a\", \"b\"]", "[1, 2, 3]", "[null, 1.5]"];
    for a in arrays {
        for s in -3..=3i64 {
            for e in (-3..=3i64).map(Some).chain([None]) {
                let src = match e { Some(e) => format!("slice!({a}, {}, {})", lit(s), lit(e)), None => format!("slice!({a}, {})", lit(s)) };
                let Ok(res) = compile(&src, &fns) else { continue };
                let reported = res.program.final_type_info().result.kind().clone();
                let mut target = TargetValue { value: Value::Object(BTreeMap::new()), metadata: Value::Object(BTreeMap::new()), secrets: Secrets::default() };
                let mut rt = Runtime::default();
                if let Ok(v) = rt.resolve(&mut target, &res.program, &TimeZone::default()) {
                    if reported.is_superset(&Kind::from(&v)).is_err() {
                        bad += 1;
                        if bad <= 6 { fail("stdlib_types", &src, &format!("a value of the declared kind `{reported}`"), &v.to_string()); }
                    }
                }
            }
        }
    }
    bad
}

/// Independent membership predicate: does the value belong to the kind?  Written against the meaning of
/// a kind (scalar flags; per known field/index its kind, `undefined` admitted where absent; the unknown
/// kind for everything else), not against `is_superset`.
fn member(v: &Value, k: &vrl::value::Kind) -> bool {
    match v {
        Value::Bytes(_) => k.contains_bytes(),
        Value::Integer(_) => k.contains_integer(),
        Value::Float(_) => k.contains_float(),
        Value::Boolean(_) => k.contains_boolean(),
        Value::Timestamp(_) => k.contains_timestamp(),
        Value::Regex(_) => k.contains_regex(),
        Value::Null => k.contains_null(),
        Value::Object(o) => match k.as_object() {
            None => false,
            Some(c) => {
                o.iter().all(|(key, val)| match c.known().get(&vrl::value::kind::Field::from(key.as_str())) {
                    Some(fk) => member(val, fk),
                    None => member(val, &c.unknown_kind()),
                }) && c.known().iter().all(|(key, fk)| o.contains_key(key.as_str()) || fk.contains_undefined())
            }
        },
        Value::Array(a) => match k.as_array() {
            None => false,
            Some(c) => {
                a.iter().enumerate().all(|(i, val)| match c.known().get(&vrl::value::kind::Index::from(i)) {
                    Some(ik) => member(val, ik),
                    None => member(val, &c.unknown_kind()),
                }) && c.known().iter().all(|(i, ik)| i.to_usize() < a.len() || ik.contains_undefined())
            }
        },
    }
}

/// C19 witness / stand-in: union and merge at the level of collection kinds.  For small object / array
/// kinds A, B and values v: v in A or v in B  =>  v in A.union(B), and A.union(B) is a superset of both.
fn kind_union() -> usize {
    use vrl::value::kind::Collection;
    use vrl::value::Kind;
    let f = |pairs: Vec<(&str, Kind)>| -> BTreeMap<vrl::value::kind::Field, Kind> { pairs.into_iter().map(|(k, v)| (k.into(), v)).collect() };
    let arr = |items: Vec<Kind>| -> Kind { Kind::array(items.into_iter().enumerate().map(|(i, k)| (i.into(), k)).collect::<BTreeMap<vrl::value::kind::Index, Kind>>()) };
    let kinds: Vec<(&str, Kind)> = vec![
        ("{}", Kind::object(Collection::empty())),
        ("{a: integer}", Kind::object(f(vec![("a", Kind::integer())]))),
        ("{a: string}", Kind::object(f(vec![("a", Kind::bytes())]))),
        ("{a: integer, b: string}", Kind::object(f(vec![("a", Kind::integer()), ("b", Kind::bytes())]))),
        ("{b: boolean}", Kind::object(f(vec![("b", Kind::boolean())]))),
        ("object", Kind::object(Collection::any())),
        ("{o: {}}", Kind::object(f(vec![("o", Kind::object(Collection::empty()))]))),
        ("{o: {a: string}}", Kind::object(f(vec![("o", Kind::object(f(vec![("a", Kind::bytes())])))]))),
        ("[]", Kind::array(Collection::empty())),
        ("[integer]", arr(vec![Kind::integer()])),
        ("[integer, string]", arr(vec![Kind::integer(), Kind::bytes()])),
        ("[string]", arr(vec![Kind::bytes()])),
        ("array", Kind::array(Collection::any())),
        ("integer", Kind::integer()),
        ("string|null", Kind::bytes().or_null()),
        ("{a: integer}|null", Kind::object(f(vec![("a", Kind::integer())])).or_null()),
        ("[integer]|{}", arr(vec![Kind::integer()]).or_object(Collection::empty())),
        ("{*: timestamp}", Kind::object(Collection::from_unknown(Kind::timestamp()))),
        ("{*: json}", Kind::object(Collection::json())),
        ("{*: integer}", Kind::object(Collection::from_unknown(Kind::integer()))),
        ("[*: timestamp]", Kind::array(Collection::from_unknown(Kind::timestamp()))),
        ("[*: json]", Kind::array(Collection::json())),
        ("{a: integer, *: string}", Kind::object(Collection::from_parts(f(vec![("a", Kind::integer())]), Kind::bytes()))),
    ];
    let ev = |json: &str| -> Value { serde_json::from_str::<serde_json::Value>(json).map(Value::from).unwrap() };
    let values: Vec<Value> = ["{}", "{\"a\": 1}", "{\"a\": \"s\"}", "{\"a\": 1, \"b\": \"s\"}", "{\"b\": true}", "{\"o\": {}}", "{\"o\": {\"a\": \"x\"}}",
                              "[]", "[1]", "[1, \"s\"]", "[\"s\"]", "1", "\"s\"", "null", "{\"x\": 5}", "{\"a\": 1, \"z\": \"s\"}"].iter().map(|j| ev(j)).collect();
    let ts = Value::Timestamp(Default::default());
    let mut values = values;
    values.push(Value::Object([("x".into(), ts.clone())].into_iter().collect()));
    values.push(Value::Array(vec![ts.clone()]));
    values.push(Value::Object([("x".into(), Value::Array(vec![Value::Null]))].into_iter().collect()));
    let mut bad = 0;
    for (na, a) in &kinds {
        for (nb, b) in &kinds {
            let u = a.union(b.clone());
            let sup = a.is_superset(b).is_ok();
            for v in &values {
                if (member(v, a) || member(v, b)) && !member(v, &u) {
                    bad += 1;
                    if bad <= 12 { fail("kind_union", &format!("({na}).union({nb}) and the value {v}"), "a value of one operand's kind belongs to the union", &format!("union = {u} {u:?}")); }
                }
                if sup && member(v, b) && !member(v, a) {
                    bad += 1;
                    if bad <= 12 { fail("kind_union", &format!("({na}).is_superset({nb}) and the value {v}"), "a kind accepted as a superset admits every value of the other", "is_superset = Ok but the value is outside"); }
                }
            }
        }
    }
    bad
}

/// C19 stand-in: type-level get / insert / remove against the value-level operations, judged by the
/// independent membership predicate `member`.
fn kind_crud(class: u8) -> usize {
    // class 0: everything except the two recorded finding classes; 1: negative index before the start of a
    // non-empty array whose kind has only required known elements; 2: array kinds with optional known elements
    let unit = match class { 1 => "kind_crud_neg_insert", 2 => "kind_crud_optional_elems", _ => "kind_crud" };
    use vrl::value::kind::Collection;
    use vrl::value::Kind;
    use vrl::path::parse_value_path;
    let f = |pairs: Vec<(&str, Kind)>| -> BTreeMap<vrl::value::kind::Field, Kind> { pairs.into_iter().map(|(k, v)| (k.into(), v)).collect() };
    let arr = |items: Vec<Kind>| -> Kind { Kind::array(items.into_iter().enumerate().map(|(i, k)| (i.into(), k)).collect::<BTreeMap<vrl::value::kind::Index, Kind>>()) };
    let kinds: Vec<(&str, Kind)> = vec![
        ("{}", Kind::object(Collection::empty())),
        ("{a: integer}", Kind::object(f(vec![("a", Kind::integer())]))),
        ("{a: integer, b: string}", Kind::object(f(vec![("a", Kind::integer()), ("b", Kind::bytes())]))),
        ("object", Kind::object(Collection::any())),
        ("{o: {a: string}}", Kind::object(f(vec![("o", Kind::object(f(vec![("a", Kind::bytes())])))]))),
        ("{a: [integer]}", Kind::object(f(vec![("a", arr(vec![Kind::integer()]))]))),
        ("[]", Kind::array(Collection::empty())),
        ("[integer]", arr(vec![Kind::integer()])),
        ("[integer, string]", arr(vec![Kind::integer(), Kind::bytes()])),
        ("[*: integer]", Kind::array(Collection::from_unknown(Kind::integer()))),
        ("array", Kind::array(Collection::any())),
        ("{a: integer}|null", Kind::object(f(vec![("a", Kind::integer())])).or_null()),
        ("{*: integer}", Kind::object(Collection::from_unknown(Kind::integer()))),
        ("integer", Kind::integer()),
        ("[integer]|null", arr(vec![Kind::integer()]).or_null()),
        ("[integer?]", arr(vec![Kind::integer()]).union(Kind::array(Collection::empty()))),
        ("[integer, string?]", arr(vec![Kind::integer(), Kind::bytes()]).union(arr(vec![Kind::integer()]))),
        ("[integer, *: string]", Kind::array(Collection::from_parts([(0usize.into(), Kind::integer())].into_iter().collect::<BTreeMap<vrl::value::kind::Index, Kind>>(), Kind::bytes()))),
        ("{a: integer?}", Kind::object(f(vec![("a", Kind::integer().or_undefined())]))),
        ("{a: [integer?]}", Kind::object(f(vec![("a", arr(vec![Kind::integer()]).union(Kind::array(Collection::empty())))]))),
    ];
    let ev = |json: &str| -> Value { serde_json::from_str::<serde_json::Value>(json).map(Value::from).unwrap() };
    let values: Vec<Value> = ["{}", "{\"a\": 1}", "{\"a\": 1, \"b\": \"s\"}", "{\"o\": {\"a\": \"x\"}}", "{\"a\": [1]}", "{\"x\": 5, \"y\": 6}",
                              "[]", "[1]", "[1, \"s\"]", "[1, 2, 3]", "1", "null", "[1, \"s\", \"t\"]", "{\"a\": []}"].iter().map(|j| ev(j)).collect();
    let paths = ["a", "b", "a.b", "o.a", "[0]", "[1]", "[-1]", "[-2]", "[3]", "a[0]", "a[-1]", "x", "[-3]", "a[-2]", "a[1]"];
    let inserted: Vec<(Value, Kind)> = vec![(Value::Integer(9), Kind::integer()), (Value::from("w"), Kind::bytes()), (Value::Null, Kind::null()), (ev("{}"), Kind::object(Collection::empty()))];
    let mut bad = 0;
    let mut checked = 0;
    for (nk, k) in &kinds {
        for v in values.iter().filter(|v| member(v, k)) {
            for p in paths {
                let path = parse_value_path(p).expect("path");
                // class of the recorded finding: the last segment is a negative index before the start of a non-empty array
                let neg_before_start = match (p.rfind("[-"), p.ends_with(']')) {
                    (Some(pos), true) => {
                        let n: usize = p[pos + 2..p.len() - 1].parse().unwrap_or(0);
                        let parent = if pos == 0 { Some(v) } else { v.get(&parse_value_path(&p[..pos]).expect("path")) };
                        matches!(parent, Some(Value::Array(a)) if !a.is_empty() && a.len() < n)
                    }
                    _ => false,
                };
                let case_class = if nk.contains('?') { 2 } else if neg_before_start { 1 } else { 0 };
                if case_class != class { continue }
                // get
                let Ok(at) = std::panic::catch_unwind(|| k.at_path(&path)) else {
                    bad += 1;
                    if bad <= 40 { fail(unit, &format!("({nk}).at_path(.{p})"), "no panic", "PANIC"); }
                    continue;
                };
                let ok = match v.get(&path) { Some(x) => member(x, &at), None => at.contains_undefined() };
                checked += 1;
                if !ok {
                    bad += 1;
                    if bad <= 40 { fail(unit, &format!("({nk}).at_path(.{p}) with the value {v}"), "what the value has at the path belongs to the type's view of the path (absence only where it admits undefined)", &format!("at_path = {at}, value has {:?}", v.get(&path).map(ToString::to_string))); }
                }
                // insert
                for (w, x) in &inserted {
                    let mut v2 = v.clone();
                    v2.insert(&path, w.clone());
                    let Ok(k2) = std::panic::catch_unwind(|| { let mut k2 = k.clone(); k2.insert(&path, x.clone()); k2 }) else {
                        bad += 1;
                        if bad <= 40 { fail(unit, &format!("({nk}).insert(.{p}, {x})"), "no panic", "PANIC"); }
                        continue;
                    };
                    checked += 1;
                    if !member(&v2, &k2) {
                        bad += 1;
                        if bad <= 40 { fail(unit, &format!("({nk}).insert(.{p}, {x}) with the value {v} and the inserted value {w}"), "the value after insertion belongs to the type after insertion", &format!("type = {k2} {k2:?}, value = {v2}")); }
                    }
                }
                // remove
                for prune in [false, true] {
                    let mut v3 = v.clone();
                    v3.remove(&path, prune);
                    let Ok(k3) = std::panic::catch_unwind(|| { let mut k3 = k.clone(); k3.remove(&path, prune); k3 }) else {
                        bad += 1;
                        if bad <= 40 { fail(unit, &format!("({nk}).remove(.{p}, prune: {prune})"), "no panic", "PANIC"); }
                        continue;
                    };
                    checked += 1;
                    if !member(&v3, &k3) {
                        bad += 1;
                        if bad <= 40 { fail(unit, &format!("({nk}).remove(.{p}, prune: {prune}) with the value {v}"), "the value after removal belongs to the type after removal", &format!("type = {k3} {k3:?}, value = {v3}")); }
                    }
                }
            }
        }
    }
    eprintln!("kind_crud: {checked} cases checked");
    bad
}

/// C28: idempotence of one casing function over every string of the 6-letter alphabet up to length 4.
fn casing_idempotence(f: &str) -> usize {
    let mut bad = 0;
    let alphabet = ['a', 'B', ' ', ',', 'é', 'ß', '_', '1'];
    let mut strings: Vec<String> = vec![String::new()];
    let mut frontier = vec![String::new()];
    for _ in 0..(if thorough() { 5 } else { 4 }) {
        let mut next = vec![];
        for s in &frontier { for c in alphabet { let mut t = s.clone(); t.push(c); next.push(t); } }
        strings.extend(next.iter().cloned());
        frontier = next;
    }
    let once = Prog::new(&format!("{f}(string!(.s))"));
    let twice = Prog::new(&format!("{f}({f}(string!(.s)))"));
    for s in &strings {
        let (a, b) = (once.run(obj(vec![("s", Value::from(s.as_str()))])), twice.run(obj(vec![("s", Value::from(s.as_str()))])));
        if a != b {
            bad += 1;
            if bad <= 6 { fail(&format!("casing_{f}"), &format!("{f}({f}({s:?}))"), &format!("{a:?} (idempotent)"), &format!("{b:?}")); }
        }
    }
    eprintln!("casing_{f}: {} strings", strings.len());
    bad
}

/// C28 bounded stand-in for the string / collection laws whose code is std str / IndexSet / iterator
/// adapters (outside both verifiers): every string over a 6-letter alphabet up to length 4, through the
/// real stdlib functions, against the law itself or an independent reference.
fn string_laws() -> usize {
    let mut bad = 0;
    let alphabet = ['a', 'B', ' ', ',', 'é', 'ß'];
    let mut strings: Vec<String> = vec![String::new()];
    let mut frontier = vec![String::new()];
    for _ in 0..(if thorough() { 5 } else { 4 }) {
        let mut next = vec![];
        for s in &frontier { for c in alphabet { let mut t = s.clone(); t.push(c); next.push(t); } }
        strings.extend(next.iter().cloned());
        frontier = next;
    }
    let idem = ["upcase", "downcase", "strip_whitespace"];
    let idem_progs: Vec<(String, Prog, Prog)> = idem.iter().map(|f| (f.to_string(), Prog::new(&format!("{f}(string!(.s))")), Prog::new(&format!("{f}({f}(string!(.s)))")))).collect();
    let strip = Prog::new("strip_whitespace(string!(.s))");
    let strlen = Prog::new("strlen(string!(.s))");
    let roundtrip = Prog::new("join!(split(string!(.s), string!(.d)), string!(.d))");
    let starts = Prog::new("starts_with(string!(.s), string!(.d))");
    let ends = Prog::new("ends_with(string!(.s), string!(.d))");
    let contains = Prog::new("contains(string!(.s), string!(.d))");
    let truncate = Prog::new("truncate(string!(.s), int!(.n))");
    let truncate_sfx = Prog::new("truncate(string!(.s), int!(.n), suffix: \"...\")");
    let seps = [",", "é", "a", ", ", "aB"];
    let mut checked = 0usize;
    let mut report = |bad: &mut usize, case: String, want: String, got: String| { *bad += 1; if *bad <= 16 { fail("string_laws", &case, &want, &got); } };
    for s in &strings {
        let ev = |extra: Vec<(&str, Value)>| { let mut v = vec![("s", Value::from(s.as_str()))]; v.extend(extra); obj(v) };
        for (f, once, twice) in &idem_progs {
            let (a, b) = (once.run(ev(vec![])), twice.run(ev(vec![])));
            checked += 1;
            if a != b { report(&mut bad, format!("{f}({f}({s:?}))"), format!("{a:?} (idempotent)"), format!("{b:?}")); }
        }
        checked += 2;
        let got = strip.run(ev(vec![]));
        if got != Ok(Value::from(s.trim())) { report(&mut bad, format!("strip_whitespace({s:?})"), format!("{:?}", s.trim()), format!("{got:?}")); }
        let got = strlen.run(ev(vec![]));
        if got != Ok(Value::Integer(s.chars().count() as i64)) { report(&mut bad, format!("strlen({s:?})"), s.chars().count().to_string(), format!("{got:?}")); }
        for d in seps {
            checked += 4;
            let e = || ev(vec![("d", Value::from(d))]);
            let got = roundtrip.run(e());
            if got != Ok(Value::from(s.as_str())) { report(&mut bad, format!("join(split({s:?}, {d:?}), {d:?})"), format!("{s:?}"), format!("{got:?}")); }
            let got = starts.run(e());
            if got != Ok(Value::Boolean(s.find(d) == Some(0))) { report(&mut bad, format!("starts_with({s:?}, {d:?})"), format!("{}", s.find(d) == Some(0)), format!("{got:?}")); }
            let got = ends.run(e());
            let want = s.rfind(d).is_some_and(|i| i + d.len() == s.len());
            if got != Ok(Value::Boolean(want)) { report(&mut bad, format!("ends_with({s:?}, {d:?})"), want.to_string(), format!("{got:?}")); }
            let got = contains.run(e());
            if got != Ok(Value::Boolean(s.find(d).is_some())) { report(&mut bad, format!("contains({s:?}, {d:?})"), s.find(d).is_some().to_string(), format!("{got:?}")); }
        }
        for n in [-1i64, 0, 1, 2, 3, 5] {
            checked += 2;
            let lim = n.max(0) as usize;
            let want: String = s.chars().take(lim).collect();
            let got = truncate.run(ev(vec![("n", n.into())]));
            if got != Ok(Value::from(want.as_str())) { report(&mut bad, format!("truncate({s:?}, {n})"), format!("{want:?}"), format!("{got:?}")); }
            let want_sfx = if s.chars().count() > lim { format!("{want}...") } else { s.clone() };
            let got = truncate_sfx.run(ev(vec![("n", n.into())]));
            if got != Ok(Value::from(want_sfx.as_str())) { report(&mut bad, format!("truncate({s:?}, {n}, suffix: \"...\")"), format!("{want_sfx:?}"), format!("{got:?}")); }
        }
    }
    // unique / compact / keys / values on small collections
    let unique = Prog::new("unique(array!(.a))");
    let compact = Prog::new("compact(array!(.a))");
    let keys = Prog::new("keys(object!(.a))");
    let values = Prog::new("values(object!(.a))");
    let items: Vec<Value> = vec![Value::Integer(1), Value::from("a"), Value::Null, Value::from(""), Value::Integer(1), obj(vec![]), Value::Array(vec![])];
    for mask in 0u32..(1 << items.len()) {
        let a: Vec<Value> = items.iter().enumerate().filter(|(i, _)| mask & (1 << i) != 0).map(|(_, v)| v.clone()).collect();
        checked += 2;
        let mut want: Vec<Value> = vec![];
        for v in &a { if !want.contains(v) { want.push(v.clone()); } }
        let got = unique.run(obj(vec![("a", Value::Array(a.clone()))]));
        if got != Ok(Value::Array(want.clone())) { report(&mut bad, format!("unique({})", Value::Array(a.clone())), Value::Array(want).to_string(), format!("{got:?}")); }
        let empty = |v: &Value| matches!(v, Value::Null) || matches!(v, Value::Bytes(b) if b.is_empty()) || matches!(v, Value::Object(o) if o.is_empty()) || matches!(v, Value::Array(x) if x.is_empty());
        let want: Vec<Value> = a.iter().filter(|v| !empty(v)).cloned().collect();
        let got = compact.run(obj(vec![("a", Value::Array(a.clone()))]));
        if got != Ok(Value::Array(want.clone())) { report(&mut bad, format!("compact({})", Value::Array(a.clone())), Value::Array(want).to_string(), format!("{got:?}")); }
        let o: BTreeMap<vrl::value::KeyString, Value> = a.iter().enumerate().map(|(i, v)| (format!("k{}", (7 * i) % 5).into(), v.clone())).collect();
        checked += 2;
        let got = keys.run(obj(vec![("a", Value::Object(o.clone()))]));
        let want = Value::Array(o.keys().map(|k| Value::from(k.as_str())).collect());
        if got != Ok(want.clone()) { report(&mut bad, format!("keys({})", Value::Object(o.clone())), want.to_string(), format!("{got:?}")); }
        let got = values.run(obj(vec![("a", Value::Object(o.clone()))]));
        let want = Value::Array(o.values().cloned().collect());
        if got != Ok(want.clone()) { report(&mut bad, format!("values({})", Value::Object(o.clone())), want.to_string(), format!("{got:?}")); }
    }
    eprintln!("string_laws: {checked} law instances checked over {} strings", strings.len());
    bad
}

const WATCHDOG_PROGRAMS: &[&str] = &[
    "b = decode_base64!(\"gA==\")\nstarts_with(b, b, case_sensitive: false)", "starts_with(decode_base64!(\"MjWwQw==\"), decode_base64!(\"MjWw\"), case_sensitive: false)",
    "starts_with(decode_base64!(\"4oI=\"), decode_base64!(\"4oI=\"), case_sensitive: false)", "starts_with(\"25\u{b0}C\", \"25\u{b0}\", case_sensitive: false)", "starts_with(decode_base64!(\"/w==\"), \"a\", case_sensitive: false)",
    "ends_with(decode_base64!(\"gA==\"), decode_base64!(\"gA==\"), case_sensitive: false)", "contains(decode_base64!(\"gA==\"), decode_base64!(\"gA==\"), case_sensitive: false)",
    "zip([])", "zip([[]])", "zip([[], [1]])", "zip([[1, 2], [3]])", "zip([1, 2], [])",
    "sieve(\"vector.dev/lowerUPPER\", r'[a-z]*')", "sieve(\"\", r'x?')", "sieve(\"abc\", r'')", "sieve(\"abc\", r'[a-z]')", "sieve(\"a-b\", r'[a-z]', replace_single: \"\", replace_repeated: \"\")",
    "replace(\"abc\", r'', \"x\")", "replace(\"abc\", r'x*', \"-\")", "replace(\"abc\", \"\", \"x\")", "replace(\"abc\", r'b', \"x\", count: -1)", "replace(\"abc\", r'b', \"x\", count: 0)",
    "split(\"abc\", r'')", "split(\"abc\", \"\")", "split(\"abc\", r'x*', limit: 0)", "split(\"a,b\", \",\", limit: -1)",
    "find(\"abc\", r'')", "find(\"abc\", r'x*', from: 10)", "find(\"abc\", \"\", from: -1)",
    "parse_regex_all!(\"abc\", r'')", "parse_regex_all!(\"abc\", r'(?P<a>x*)')", "match_any(\"abc\", [r''])",
    "chunks!(\"abcdef\", 1)", "chunks(\"abc\", int!(.n)) ?? \"err\"",
    "truncate(\"abc\", -1)", "slice!(\"abc\", -1, -9223372036854775807)", "\"ab\" * 0", "\"ab\" * -9223372036854775807",
    "format_int!(-9223372036854775807 - 1, 2)", "format_number(1.5, -9223372036854775807)", "format_number(1, 0, grouping_separator: \"\")",
    "flatten({\"a\": {\"b\": {}}})", "unflatten({\"a.b\": 1, \"a\": 2})", "unflatten({\"\": 1})", "unflatten({\"a..b\": 1})", "compact([[], [[]]])", "unique([])",
    "strip_whitespace(\"\")", "join!([], \"\")", "contains(\"\", \"\")", "starts_with(\"\", \"\")", "ends_with(\"a\", \"\")",
    "parse_key_value!(\"\")", "parse_key_value!(\"a=\", field_delimiter: \"\") ", "parse_key_value(\"a=b\", key_value_delimiter: \"\") ?? \"err\"", "parse_csv!(\"\")", "parse_csv!(\"a,b\", delimiter: \",\")",
    "encode_key_value({})", "encode_logfmt({\"a\": \"\"})", "parse_json!(\"[]\", max_depth: 1)", "parse_duration!(\"0s\", \"ns\")",
    "push([], [])", "append([], [])", "keys({})", "values({})", "length(\"\")", "pop([])", "get!({}, [])", "set!({}, [], 1)", "remove!({}, [])", "set!([], [5], 1)",
    "for_each([]) -> |_i, _v| { null }", "map_keys({}) -> |k| { k }", "filter([]) -> |_i, _v| { true }", "replace_with(\"abc\", r'') -> |m| { \"x\" }", "replace_with(\"abc\", r'x*', count: 0) -> |m| { \"y\" }",
    "match_datadog_query({}, \"\")", "match_datadog_query({\"a\": 1}, \"*\")", "parse_grok(\"\", \"%{GREEDYDATA:a}\") ?? \"err\"",
    "redact(\"\", filters: [r''])", "redact(\"abc\", filters: [r'x*'])", "camelcase(\"\")", "snakecase(\"__\")", "basename!(\"\")", "dirname!(\"\")", "split_path(\"\")",
    "ip_subnet!(\"1.2.3.4\", \"/0\")", "ip_cidr_contains!(\"0.0.0.0/0\", \"1.2.3.4\")", "to_string(to_float!(\"1e300\"))", "mod(5, -1)", "abs(-9223372036854775807 - 1)", "round(1.5, precision: -400)", "round(1.5, precision: 400)", "ceil(1.5, precision: 400)", "floor(-1.5, precision: -400)",
];

/// C05 bounded stand-in: scripted stdlib calls with empty / zero / negative / extreme arguments, each compiled
/// and run in a child process under a 10 s watchdog and a 2 GB address-space limit: the call must end
/// (with a value or an error), not hang, not grow without bound, not panic.
fn stdlib_watchdog() -> usize {
    let exe = std::env::current_exe().expect("own path");
    let mut bad = 0;
    for (i, src) in WATCHDOG_PROGRAMS.iter().enumerate() {
        let mut child = std::process::Command::new("sh")
            .arg("-c").arg(format!("ulimit -v 2000000; exec {} stdlib_watchdog_case {}", exe.display(), i))
            .stderr(std::process::Stdio::piped()).stdout(std::process::Stdio::null()).spawn().expect("spawn");
        let t0 = std::time::Instant::now();
        let status = loop {
            match child.try_wait().expect("wait") {
                Some(st) => break Some(st),
                None if t0.elapsed().as_secs() >= 10 => { let _ = child.kill(); let _ = child.wait(); break None; }
                None => std::thread::sleep(std::time::Duration::from_millis(10)),
            }
        };
        match status {
            None => { bad += 1; fail("stdlib_watchdog", src, "ends within 10 s", "still running after 10 s (killed)"); }
            Some(st) if st.code() == Some(0) => {}
            Some(st) if st.code() == Some(3) => { bad += 1; fail("stdlib_watchdog", src, "witness program compiles", "compile error (fix the witness list)"); }
            Some(st) => {
                bad += 1;
                let mut err = String::new();
                if let Some(mut e) = child.stderr.take() { use std::io::Read; let _ = e.read_to_string(&mut err); }
                let line = err.lines().find(|l| l.contains("panicked") || l.contains("memory allocation")).unwrap_or("").to_string();
                fail("stdlib_watchdog", src, "ends with a value or an error", &format!("process ended with {st}: {line}"));
            }
        }
    }
    eprintln!("stdlib_watchdog: {} calls", WATCHDOG_PROGRAMS.len());
    bad
}

/// C04 bounded stand-in for the lexer / parser / diagnostics renderer (no contract reaches them): every
/// source text over a 13-letter alphabet up to length 5, and every string / raw string / regex /
/// timestamp literal whose content is such a text up to length 5 (4 for the prefixed forms), is compiled;
/// diagnostics are rendered; accepted programs are run.  A panic anywhere is a failing case.
fn compile_small_sources() -> usize {
    let alphabet = ['"', '\\', '\n', '\u{a0}', 'a', '.', '=', ' ', '{', '\'', '}', '(', '0'];
    let mut texts: Vec<String> = vec![String::new()];
    let mut frontier = vec![String::new()];
    let max_len = if thorough() { 6 } else { 5 };
    for _ in 0..max_len {
        let mut next = vec![];
        for s in &frontier { for c in alphabet { let mut t = s.clone(); t.push(c); next.push(t); } }
        texts.extend(next.iter().cloned());
        frontier = next;
    }
    let fns = vrl::stdlib::all();
    let mut bad = 0;
    let mut n = 0usize;
    let prev = std::panic::take_hook();
    std::panic::set_hook(Box::new(|_| {}));
    let mut check = |src: &str, bad: &mut usize| {
        let r = std::panic::catch_unwind(std::panic::AssertUnwindSafe(|| {
            match compile(src, &fns) {
                Ok(res) => {
                    let mut target = TargetValue { value: Value::Object(BTreeMap::new()), metadata: Value::Object(BTreeMap::new()), secrets: Secrets::default() };
                    let _ = Runtime::default().resolve(&mut target, &res.program, &TimeZone::default());
                }
                Err(diags) => { let _ = vrl::diagnostic::Formatter::new(src, diags).to_string(); }
            }
        }));
        if r.is_err() {
            *bad += 1;
            if *bad <= 8 { fail("compile_small_sources", &format!("{src:?}"), "compiles or is rejected with renderable diagnostics", "PANIC"); }
        }
    };
    for t in &texts {
        n += 2;
        check(t, &mut bad);
        if t.chars().count() <= 5 { check(&format!("\"{t}\""), &mut bad); }
        if t.chars().count() <= 4 {
            n += 4;
            check(&format!("s'{t}'"), &mut bad);
            check(&format!("r'{t}'"), &mut bad);
            check(&format!("t'{t}'"), &mut bad);
            check(&format!(".a = \"{t}\"\n.a"), &mut bad);
        }
    }
    std::panic::set_hook(prev);
    eprintln!("compile_small_sources: {n} source texts");
    bad
}

/// C25 witness: to_unix_timestamp(from_unix_timestamp(v, unit), unit) == v wherever from_unix_timestamp accepts v,
/// at the extremes of i64 and around second / sub-second boundaries, for all four units.
fn unix_timestamp_roundtrip() -> usize {
    let mut bad = 0;
    let mut checked = 0;
    let edges: Vec<i64> = vec![i64::MIN, i64::MIN + 1, -9_223_372_036_854_775_000, -9_223_372_036_000_000_001, -9_223_372_036_000_000_000, -9_223_372_035_999_999_999,
        -1_000_000_001, -1_000_000_000, -999_999_999, -1_000_001, -1_000_000, -1001, -1000, -999, -2, -1, 0, 1, 2, 999, 1000, 1001, 999_999, 1_000_000, 999_999_999, 1_000_000_000, 1_000_000_001,
        253_402_300_799, 253_402_300_800, 8_210_266_876_799, 8_210_266_876_800, 9_223_372_036_000_000_000, 9_223_372_036_854_775_000, i64::MAX - 1, i64::MAX];
    for unit in ["seconds", "milliseconds", "microseconds", "nanoseconds"] {
        let from = Prog::new(&format!("from_unix_timestamp!(int!(.v), unit: \"{unit}\")"));
        let round = Prog::new(&format!("to_unix_timestamp(from_unix_timestamp!(int!(.v), unit: \"{unit}\"), unit: \"{unit}\")"));
        for v in &edges {
            if from.run(obj(vec![("v", (*v).into())])).is_err() { continue }
            checked += 1;
            let got = round.run(obj(vec![("v", (*v).into())]));
            if got != Ok(Value::Integer(*v)) {
                bad += 1;
                if bad <= 10 { fail("unix_timestamp_roundtrip", &format!("to_unix_timestamp(from_unix_timestamp({v}, \"{unit}\"), \"{unit}\")"), &v.to_string(), &format!("{got:?}")); }
            }
        }
    }
    eprintln!("unix_timestamp_roundtrip: {checked} accepted values");
    bad
}

/// C25 bounded stand-in for the pairs whose code is std / chrono parsing and printing (outside both verifiers):
/// ip_aton/ip_ntoa, ip_pton/ip_ntop, ip_to_ipv6/ipv6_to_ipv4, to_entries/from_entries, flatten/unflatten,
/// format_timestamp/parse_timestamp, each composed through compiled VRL programs on a stated finite domain.
fn pair_roundtrips() -> usize {
    let mut bad = 0;
    let mut n = 0usize;
    let mut expect = |what: &str, input: String, want: Value, got: Result<Value, String>, bad: &mut usize| {
        if got != Ok(want.clone()) {
            *bad += 1;
            if *bad <= 12 { fail("pair_roundtrips", &format!("{what} on {input}"), &format!("{want:?}"), &format!("{got:?}")); }
        }
    };
    // ip_aton(ip_ntoa(n)) == n for every accepted n; ip_ntoa(ip_aton(s)) == s for canonical dotted quads
    let mut u32s: Vec<i64> = vec![0, 1, 9, 10, 99, 100, 255, 256, 65_535, 65_536, 16_777_215, 16_777_216, 167_772_160, 2_130_706_433, 2_147_483_647, 2_147_483_648, 3_232_235_777, 4_294_967_294, 4_294_967_295];
    let mut x: u64 = 1; for _ in 0..2000 { x = x.wrapping_mul(6364136223846793005).wrapping_add(1442695040888963407); u32s.push((x >> 32) as i64); }
    let aton_ntoa = Prog::new("ip_aton!(ip_ntoa!(int!(.v)))");
    let ntoa = Prog::new("ip_ntoa!(int!(.v))");
    let ntoa_aton = Prog::new("ip_ntoa!(ip_aton!(string!(.v)))");
    let v4_v6_v4 = Prog::new("ipv6_to_ipv4!(ip_to_ipv6!(string!(.v)))");
    let pton_ntop = Prog::new("ip_ntop!(ip_pton!(string!(.v)))");
    for v in &u32s {
        n += 4;
        expect("ip_aton(ip_ntoa(n))", v.to_string(), Value::Integer(*v), aton_ntoa.run(obj(vec![("v", (*v).into())])), &mut bad);
        let s = std::net::Ipv4Addr::from(*v as u32).to_string();
        expect("ip_ntoa(n) is the dotted quad", v.to_string(), s.clone().into(), ntoa.run(obj(vec![("v", (*v).into())])), &mut bad);
        expect("ip_ntoa(ip_aton(s))", s.clone(), s.clone().into(), ntoa_aton.run(obj(vec![("v", s.clone().into())])), &mut bad);
        expect("ipv6_to_ipv4(ip_to_ipv6(s))", s.clone(), s.clone().into(), v4_v6_v4.run(obj(vec![("v", s.clone().into())])), &mut bad);
        expect("ip_ntop(ip_pton(s))", s.clone(), s.clone().into(), pton_ntop.run(obj(vec![("v", s.clone().into())])), &mut bad);
    }
    let mut v6s: Vec<u128> = vec![0, 1, 0xffff, 0x1_0000, u128::MAX, u128::MAX - 1, 0x2001_0db8_0000_0000_0000_0000_0000_0001, 0xfe80_0000_0000_0000_0000_0000_0000_0001,
        0x0000_0000_0000_0000_0000_ffff_0102_0304, 0x0001_0000_0000_0000_0000_0000_0000_0000, 0x0001_0000_0000_0001_0000_0000_0000_0001, 0x0064_ff9b_0000_0000_0000_0000_c000_0221];
    let mut y: u128 = 7; for _ in 0..1000 { y = y.wrapping_mul(0x2360ed051fc65da44385df649fccf645).wrapping_add(0x5851f42d4c957f2d14057b7ef767814f); v6s.push(y); v6s.push(y & 0xffff_0000_0000_ffff_0000_0000_ffff_0000); }
    for a in &v6s {
        n += 1;
        let s = std::net::Ipv6Addr::from(*a).to_string();
        expect("ip_ntop(ip_pton(s))", s.clone(), s.clone().into(), pton_ntop.run(obj(vec![("v", s.clone().into())])), &mut bad);
    }
    // to_entries/from_entries and flatten/unflatten on objects without separators in keys and without empty containers
    let leaf: Vec<Value> = vec![Value::Integer(1), Value::Null, "s".into(), Value::Boolean(true), Value::Array(vec![Value::Integer(1), "x".into()])];
    let mut objs: Vec<Value> = Vec::new();
    for (i, a) in leaf.iter().enumerate() {
        objs.push(obj(vec![("a", a.clone())]));
        for b in &leaf {
            objs.push(obj(vec![("a", a.clone()), ("b c", b.clone())]));
            objs.push(obj(vec![("k", obj(vec![("x", a.clone()), ("y", obj(vec![("z", b.clone())]))])), ("m", leaf[(i + 1) % leaf.len()].clone())]));
        }
    }
    let entries = Prog::new("from_entries!(to_entries(object!(.v)))");
    let flat = Prog::new("unflatten(flatten(object!(.v)))");
    for o in &objs {
        n += 2;
        expect("from_entries(to_entries(o))", format!("{o}"), o.clone(), entries.run(obj(vec![("v", o.clone())])), &mut bad);
        expect("unflatten(flatten(o))", format!("{o}"), o.clone(), flat.run(obj(vec![("v", o.clone())])), &mut bad);
    }
    // format_timestamp/parse_timestamp with a full-precision format, years 1..=9999
    let fmt = "%Y-%m-%dT%H:%M:%S%.9f%z";
    let ts = Prog::new(&format!("t = from_unix_timestamp!(int!(.v), unit: \"nanoseconds\"); parse_timestamp!(format_timestamp!(t, \"{fmt}\"), \"{fmt}\") == t"));
    let secs: Vec<i64> = vec![-9_223_372_036, -2_208_988_800, -86_401, -86_400, -1, 0, 1, 59, 60, 86_399, 86_400, 951_782_400, 1_078_012_800, 1_700_000_000, 2_147_483_647, 2_147_483_648, 4_102_444_800, 9_223_372_035];
    for sec in &secs { for ns in [0i64, 1, 999, 1000, 123_456_789, 999_999_999] {
        let Some(v) = sec.checked_mul(1_000_000_000).and_then(|x| x.checked_add(ns)) else { continue };
        n += 1;
        expect("parse_timestamp(format_timestamp(t, f), f) == t", format!("{v} ns, f = {fmt}"), Value::Boolean(true), ts.run(obj(vec![("v", v.into())])), &mut bad);
    } }
    eprintln!("pair_roundtrips: {n} compositions");
    bad
}

/// C29 bounded stand-in: round / ceil / floor with a precision return a finite value within 10^-precision
/// of the input (ceil never below, floor never above).  `extreme` selects the precisions beyond the
/// range where 10^precision is a finite f64 (recorded separately).
fn rounding_laws(extreme: bool) -> usize {
    let unit = if extreme { "rounding_extreme_precision" } else { "rounding_laws" };
    let mut xs: Vec<f64> = vec![0.0012345678901234568, 3e-19, -3e-19, 1.26e-18, 1.5, 2.5, -1.5, -2.5, 1234.5678, -1234.5678, 0.1, 0.7, 1e-10, 123456789.123, 1e15 + 0.3, 0.0, 9.995, 0.045, 1e-7, 1e300, -1e300, 1.7976931348623157e308];
    // the extreme class: precisions where 10^precision is not a normal f64, and subnormal inputs (x * 10^p may underflow to 0)
    if extreme { xs.push(5e-324); xs.push(-5e-324); }
    let ps: Vec<i64> = if extreme { vec![-400, -330, -309, -1, 0, 309, 330, 400, i64::MAX, i64::MIN] } else { (-6..=22).collect() };
    let progs = [("round", Prog::new("round(float!(.x), precision: int!(.p))")), ("ceil", Prog::new("ceil(float!(.x), precision: int!(.p))")), ("floor", Prog::new("floor(float!(.x), precision: int!(.p))"))];
    let mut bad = 0;
    let mut checked = 0;
    for x in &xs {
        for p in &ps {
            let step = 10f64.powi(-((*p).clamp(-400, 400) as i32));
            let tol = step * (1.0 + 1e-9) + x.abs() * 4e-16;
            for (name, prog) in &progs {
                checked += 1;
                let got = prog.run(obj(vec![("x", Value::from_f64_or_zero(*x)), ("p", (*p).into())]));
                let ok = match &got {
                    Ok(Value::Float(r)) => {
                        let r = r.into_inner();
                        r.is_finite() && (r - x).abs() <= tol && match *name { "ceil" => r >= x - x.abs() * 4e-16, "floor" => r <= x + x.abs() * 4e-16, _ => true }
                    }
                    _ => false,
                };
                if !ok {
                    bad += 1;
                    if bad <= 10 { fail(unit, &format!("{name}({x:e}, precision: {p})"), &format!("a finite float within {step:e} of the input"), &format!("{got:?}")); }
                }
            }
        }
    }
    eprintln!("{unit}: {checked} calls");
    bad
}

const SIGNATURE_CALLS: &[&str] = &[
    "upcase(.x)", "downcase(.x)", "strlen(.x)", "strip_whitespace(.x)", "camelcase(.x)", "snakecase(.x)", "truncate(.x, 1)",
    "replace(.x, \"a\", \"b\")", "replace(.x, \"a\", \"b\", count: 0)", "replace(.x, r'a', \"b\", count: 0)", "replace(.x, r'a', \"b\", count: 1)",
    "split(.x, \",\")", "join(.x, \",\")", "slice(.x, 0)", "slice(.x, 1, 2)", "length(.x)", "keys(.x)", "values(.x)", "flatten(.x)", "compact(.x)", "unique(.x)",
    "push(.x, 1)", "append(.x, [1])", "contains(.x, \"a\")", "starts_with(.x, \"a\")", "ends_with(.x, \"a\")", "find(.x, \"a\")", "chunks(.x, 1)", "sieve(.x, r'[a-z]')",
    "to_int(.x)", "to_float(.x)", "to_bool(.x)", "to_string(.x)", "abs(.x)", "ceil(.x)", "floor(.x)", "round(.x)", "mod(.x, 2)", "format_int(.x)", "format_number(.x)", "parse_int(.x)", "parse_float(.x)",
    "parse_json(.x)", "encode_json(.x)", "merge(.x, {})", "string(.x)", "int(.x)", "float(.x)", "bool(.x)", "array(.x)", "object(.x)", "is_string(.x)", "is_nullish(.x)",
    "get(.x, [\"a\"])", "set(.x, [\"a\"], 1)", "remove(.x, [\"a\"])", "match(.x, r'a')", "parse_regex(.x, r'(?P<a>a)')", "zip(.x)", "encode_base64(.x)", "decode_base64(.x)",
    "to_unix_timestamp(.x)", "from_unix_timestamp(.x)", "format_timestamp(.x, \"%F\")", "parse_timestamp(.x, \"%F\")", "tally(.x)", "match_array(.x, r'a')", "includes(.x, 1)", "pop(.x)",
    "basename(.x)", "dirname(.x)", "parse_key_value(.x)", "parse_url(.x)", "parse_duration(.x, \"s\")", "ip_to_ipv6(.x)", "is_ipv4(.x)", "uuid_from_friendly_id(.x)", "parse_query_string(.x)", "type_def(.x)",
    // the runtime-typed argument in a later position
    "random_int(.x, 10)", "random_int(0, .x)", "random_bytes(.x)", "random_float(.x, 1.0)", "truncate(\"abc\", .x)", "slice(\"abc\", .x)", "chunks(\"abc\", .x)", "format_int(5, .x)",
    "replace(\"a\", \"a\", \"b\", count: .x)", "split(\"a,b\", \",\", limit: .x)", "round(1.5, precision: .x)", "find(\"abc\", \"a\", from: .x)", "ip_subnet(\"1.2.3.4\", .x)", "join([\"a\"], .x)",
    "push([], .x)", "get({}, .x)", "contains(\"a\", .x)", "mod(5, .x)", "format_number(1.5, .x)", "ip_cidr_contains(.x, \"1.2.3.4\")", "merge({}, .x)", "starts_with(\"a\", .x)", "includes([1], .x)",
];

/// C03 bounded stand-in: stdlib calls whose first argument is typed only at runtime.  For every argument
/// kind the call either errors (handled by `?? "fallback"`) or returns a value that belongs to the kind the
/// compiler reports for the expression (independent membership predicate); it never panics.
/// `known` selects the calls recorded as findings (kept apart so that any other call still alarms).
fn stdlib_signatures(known: bool) -> usize {
    let unit = if known { "stdlib_signatures_known" } else { "stdlib_signatures" };
    const KNOWN: &[&str] = &["flatten(.x)", "compact(.x)", "mod(.x, 2)", "set(.x, [\"a\"], 1)", "remove(.x, [\"a\"])", "parse_regex(.x, r'(?P<a>a)')"];
    let ev = |json: &str| -> Value { serde_json::from_str::<serde_json::Value>(json).map(Value::from).unwrap() };
    let mut xs: Vec<Value> = ["5", "-3", "\"abc\"", "\"a,b\"", "\"\"", "\"12\"", "\"{\\\"a\\\": 1}\"", "\"http://x/y?a=1\"", "[1, \"a\"]", "[\"a\", \"b\"]", "[[1], [2]]", "[]", "{\"a\": 1}", "{\"a\": {\"b\": null}}", "{}", "null", "true", "1.5", "0"].iter().map(|j| ev(j)).collect();
    xs.push(Value::Timestamp(Default::default()));
    let fns = vrl::stdlib::all();
    let mut bad = 0;
    let mut checked = 0;
    for call in SIGNATURE_CALLS {
        if KNOWN.contains(call) != known { continue }
        let candidates = [format!("{call} ?? \"fallback\""), call.to_string()];
        let Some(res) = candidates.iter().find_map(|src| compile(src, &fns).ok()) else {
            bad += 1; fail(unit, call, "one of `f(..) ?? \"fallback\"` / `f(..)` compiles", "compile error (fix the witness list)"); continue
        };
        let reported = res.program.final_type_info().result.kind().clone();
        for x in &xs {
            checked += 1;
            let mut target = TargetValue { value: obj(vec![("x", x.clone())]), metadata: Value::Object(BTreeMap::new()), secrets: Secrets::default() };
            let got = std::panic::catch_unwind(std::panic::AssertUnwindSafe(|| Runtime::default().resolve(&mut target, &res.program, &TimeZone::default())));
            match got {
                Err(_) => { bad += 1; if bad <= 400 { fail(unit, &format!("{call} with .x = {x}"), "no panic", "PANIC"); } }
                Ok(Ok(v)) => {
                    if !member(&v, &reported) {
                        bad += 1;
                        if bad <= 400 { fail(unit, &format!("{call} with .x = {x}"), &format!("a value of the reported kind `{reported}`"), &v.to_string()); }
                    }
                }
                Ok(Err(_)) => {
                    // a program accepted without `!` must not fail: the error was either coalesced or the call is infallible
                    bad += 1;
                    if bad <= 400 { fail(unit, &format!("{call} with .x = {x}"), "no runtime error (the program has no `!`)", "runtime error"); }
                }
            }
        }
    }
    eprintln!("{unit}: {checked} calls");
    bad
}

fn main() {
    let unit = std::env::args().nth(1).unwrap_or_default();
    if unit == "stdlib_watchdog_case" {
        let i: usize = std::env::args().nth(2).and_then(|s| s.parse().ok()).unwrap_or(0);
        let code = match run_vrl(WATCHDOG_PROGRAMS[i], Value::Object(BTreeMap::new())) {
            Err(e) if e.starts_with("compile error") => { eprintln!("{e}"); 3 }
            _ => 0,
        };
        std::process::exit(code);
    }
    if unit == "format_number_case" {
        let i: usize = std::env::args().nth(2).and_then(|s| s.parse().ok()).unwrap_or(0);
        std::process::exit(format_number_case(i) as i32);
    }
    let bad = match unit.as_str() {
        "crud_vec" => crud_vec(),
        "crud_paths" => crud_paths(),
        "closure_scope" => closure_scope(),
        "ctl_programs" => ctl_programs(),
        "format_int" => format_int(),
        "read_only" => read_only(),
        "constants" => constants(),
        "target_faults" => target_faults(),
        "reported_paths" => reported_paths(),
        "op_typing" => op_typing(),
        "string_arith" => string_arith(),
        "collection_laws" => collection_laws(),
        "stdlib_signatures" => stdlib_signatures(false),
        "stdlib_signatures_known" => stdlib_signatures(true),
        "rounding_laws" => rounding_laws(false),
        "rounding_extreme_precision" => rounding_laws(true),
        "unix_timestamp_roundtrip" => unix_timestamp_roundtrip(),
        "pair_roundtrips" => pair_roundtrips(),
        "compile_small_sources" => compile_small_sources(),
        "stdlib_watchdog" => stdlib_watchdog(),
        "string_laws" => string_laws(),
        "kind_crud" => kind_crud(0),
        "kind_crud_neg_insert" => kind_crud(1),
        "kind_crud_optional_elems" => kind_crud(2),
        "kind_union" => kind_union(),
        "stdlib_types" => stdlib_types(),
        "assign_typing" => assign_typing(),
        "format_number" => format_number(),
        u if u.starts_with("casing_") => casing_idempotence(&u["casing_".len()..]),
        _ => {
            eprintln!("unknown witness unit {unit}");
            std::process::exit(2);
        }
    };
    eprintln!("witness {unit}: {bad} failing case(s)");
    std::process::exit(if bad > 0 { 1 } else { 0 });
}
