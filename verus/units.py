"""Verus unit registry: which real functions are extracted, their contracts and declared rewrites."""
import re
UNITS = {}

CLOSURE = "src/compiler/function/closure.rs"
RUNNER_IMPL = "impl<'a, T> Runner<'a, T>"
RW_RUNNER = dict(**{"from": "(self.runner)(ctx)", "to": "self.call_runner(ctx)", "why": "Verus has no Fn(&mut _) calls; call_runner = havoc contract"})


def runner_ensures(fn, nparams, valued):
    out = "final(ctx).trace@.last()->RunClosure_0"
    e = [
        ("C13.%s.restore" % fn, "every closure parameter variable holds its pre-call binding (or stays unset) on every exit",
         "params_restored(*self, old(ctx).state.vars@, final(ctx).state.vars@, %d)" % nparams),
        ("C13.%s.once" % fn, "the closure body runs exactly once per iteration",
         "closure_ran_once(old(ctx).trace@, final(ctx).trace@)"),
        ("C07.%s.abort" % fn, "abort raised in the closure body propagates unchanged out of the iteration",
         "(%s is Err && %s->Err_0 is Abort) ==> (r is Err && r->Err_0 == %s->Err_0)" % (out, out, out)),
    ]
    if valued:
        e.append(("C06.%s.outcome" % fn, "Ok(v) and `return v` both yield iteration value v; errors propagate unchanged",
                  "r == iteration_value(%s)" % out))
    else:
        e.append(("C06.%s.return" % fn, "`return v` ends the iteration successfully (it is not propagated as an error)",
                  "(%s is Err && %s->Err_0 is Return) ==> !(r is Err && r->Err_0 is Return)" % (out, out)))
    return e


# ---- the stdlib callers of the Runner methods: checked against the Runner contracts, not the bodies ----
_RW_FOR = lambda it, expr_re, expr: dict(**{"from": r"for item in " + expr_re + r" \{", "to": ("let mut __iter = %s; " % expr if it == "__iter" else "") + "loop { let item = match %s.next() { Some(__x) => __x, None => break };" % it,
                                           "regex": True, "count": 1, "why": "`for x in it {..}` by its definition: `loop { match it.next() { Some(x) => {..}, None => break } }` (Iterator::by_ref / IntoIterator::into_iter on an iterator are the identity)"})
_NEW = "old(ctx).trace@, final(ctx).trace@"
_INV = "only_closure_runs(old(ctx).trace@, ctx.trace@)"


def _caller_ensures(fn, n, valued):
    e = [("C13.%s.restore" % fn, "after the whole call, on every exit (all iterations done, or an iteration failed / aborted), every closure parameter variable holds its pre-call binding or is still unset",
          "params_restored(*runner, old(ctx).state.vars@, final(ctx).state.vars@, %d)" % n),
         ("C13.%s.only_closure_runs" % fn, "the call touches the interpreter state only through Runner iterations (nothing else is appended to the trace)",
          "only_closure_runs(%s)" % _NEW),
         ("C07.%s.abort" % fn, "an abort raised in any iteration leaves the call unchanged as that abort",
          "forall|k: int| old(ctx).trace@.len() <= k < final(ctx).trace@.len() && ((#[trigger] final(ctx).trace@[k])->RunClosure_0 is Err) && (final(ctx).trace@[k]->RunClosure_0->Err_0 is Abort) ==> r is Err && r->Err_0 == final(ctx).trace@[k]->RunClosure_0->Err_0")]
    if valued:
        e += [("C06.%s.stops_at_first_error" % fn, "an iteration that fails ends the call at once with that error; `return` in the closure only ends its iteration",
               "earlier_runs_ok(%s) && (r is Err ==> final(ctx).trace@.len() > old(ctx).trace@.len() && r == iteration_value(final(ctx).trace@.last()->RunClosure_0))" % _NEW),
              ("C06.%s.ok_means_all_ok" % fn, "the call succeeds (with null) only when every iteration ended normally or by `return`",
               "r is Ok ==> all_runs_ok(%s) && r->Ok_0 is Null" % _NEW)]
    return e


def _runner_contract_decls():
    """external_body declarations of the Runner methods whose ensures are exactly runner_ensures(...) (proved in v_closure_runner)"""
    sigs = [("run_key_value", "key: ItemKey, value: ItemVal", "Resolved", 2, True),
            ("run_index_value", "index: usize, value: ItemVal", "Resolved", 2, True),
            ("map_key", "key: ItemKey", "Result<(), ExpressionError>", 1, False),
            ("map_value", "value: ItemVal", "Result<(), ExpressionError>", 1, False)]
    out = ["impl Runner {"]
    for name, params, ret, n, valued in sigs:
        out.append("    #[verifier::external_body]")
        out.append("    pub fn %s(&self, ctx: &mut Context, %s) -> (r: %s)" % (name, params, ret))
        out.append("        ensures")
        for oid, _text, expr in runner_ensures(name, n, valued):
            out.append("            %s, // = %s" % (expr, oid))
        out.append("    { unimplemented!() }")
    out.append("}")
    return "\n".join(out)


UNITS["v_closure_callers"] = dict(
    prop=["C13", "C06", "C07"], tier="q", prelude=["interp.rs", "closure.rs", "closurecallers.rs"],
    extra=_runner_contract_decls(),
    native_witness={"C13": ["closure_scope"], "C06": ["ctl_programs"], "C07": ["ctl_programs"]},
    fns=[
        dict(id="for_each", file="src/stdlib/for_each.rs", impl=None, name="for_each",
             orig_sig="fn for_each<T>(value: Value, ctx: &mut Context, runner: &closure::Runner<T>) -> Resolved where T: Fn(&mut Context) -> Resolved,",
             sig="pub fn for_each(value: Value, ctx: &mut Context, runner: &Runner) -> (r: Resolved)",
             rewrites=[_RW_FOR("__iter", r"value\.into_iter\(false\)", "value.into_iter(false)")],
             loops={"_count": 1, 0: dict(spec="invariant params_restored(*runner, old(ctx).state.vars@, ctx.state.vars@, 2), %s, all_runs_ok(old(ctx).trace@, ctx.trace@),\n decreases __iter.left@," % _INV)},
             ensures=_caller_ensures("for_each", 2, True),
             safety_id="C13.for_each.safety", safety_text="the iteration loop terminates with the iterator (decreases: items left)"),
        dict(id="map_keys", file="src/stdlib/map_keys.rs", impl=None, name="map_keys",
             orig_sig="fn map_keys<T>( value: Value, recursive: bool, ctx: &mut Context, runner: &closure::Runner<T>, ) -> Resolved where T: Fn(&mut Context) -> Resolved,",
             sig="pub fn map_keys(value: Value, recursive: bool, ctx: &mut Context, runner: &Runner) -> (r: Resolved)",
             rewrites=[_RW_FOR("iter", r"iter\.by_ref\(\)", ""),
                       dict(**{"from": "Ok(iter.into())", "to": "Ok(iter.into_value())", "count": 1, "why": "From<ValueIter> for Value: the rebuilt collection, opaque"})],
             loops={"_count": 1, 0: dict(spec="invariant params_restored(*runner, old(ctx).state.vars@, ctx.state.vars@, 1), %s, no_abort_runs(old(ctx).trace@, ctx.trace@),\n decreases iter.left@," % _INV)},
             ensures=_caller_ensures("map_keys", 1, False),
             safety_id="C13.map_keys.safety", safety_text="the iteration loop terminates with the iterator (decreases: items left)"),
        dict(id="map_values", file="src/stdlib/map_values.rs", impl=None, name="map_values",
             orig_sig="fn map_values<T>( value: Value, recursive: bool, ctx: &mut Context, runner: &closure::Runner<T>, ) -> Resolved where T: Fn(&mut Context) -> Resolved,",
             sig="pub fn map_values(value: Value, recursive: bool, ctx: &mut Context, runner: &Runner) -> (r: Resolved)",
             rewrites=[_RW_FOR("iter", r"iter\.by_ref\(\)", ""),
                       dict(**{"from": "Ok(iter.into())", "to": "Ok(iter.into_value())", "count": 1, "why": "From<ValueIter> for Value: the rebuilt collection, opaque"})],
             loops={"_count": 1, 0: dict(spec="invariant params_restored(*runner, old(ctx).state.vars@, ctx.state.vars@, 1), %s, no_abort_runs(old(ctx).trace@, ctx.trace@),\n decreases iter.left@," % _INV)},
             ensures=_caller_ensures("map_values", 1, False),
             safety_id="C13.map_values.safety", safety_text="the iteration loop terminates with the iterator (decreases: items left)"),
    ],
)


UNITS["v_closure_runner"] = dict(
    prop=["C13", "C06", "C07"], tier="q", prelude=["interp.rs", "closure.rs"],
    native_witness={"C13": ["closure_scope"], "C06": ["ctl_programs"], "C07": ["ctl_programs"]},
    fns=[
        dict(id="cleanup", file=CLOSURE, impl=None, name="cleanup",
             orig_sig="fn cleanup(state: &mut RuntimeState, ident: Option<&Ident>, data: Option<Value>)",
             sig="pub fn cleanup(state: &mut RuntimeState, ident: Option<&Ident>, data: Option<Value>)",
             ensures=[("C13.cleanup.restore_or_remove", "cleanup restores the saved binding or removes the variable, and touches nothing else",
                       "final(state).vars@ == (match (ident, data) {\n    (Some(i), Some(v)) => old(state).vars@.insert(i.id, v),\n    (Some(i), None) => old(state).vars@.remove(i.id),\n    _ => old(state).vars@ })")],
             safety_id="C13.cleanup.safety"),
        dict(id="insert", file=CLOSURE, impl=None, name="insert",
             orig_sig="fn insert(state: &mut RuntimeState, ident: Option<&Ident>, data: Value) -> Option<Value>",
             sig="pub fn insert(state: &mut RuntimeState, ident: Option<&Ident>, data: Value) -> (r: Option<Value>)",
             desugar=["and_then"],
             ensures=[("C13.insert.binds_and_returns_previous", "insert binds the parameter (when it has a name) and returns the binding it shadows; nothing else changes",
                       "(match ident {\n    Some(i) => final(state).vars@ == old(state).vars@.insert(i.id, data) && r == lookup(old(state).vars@, i.id),\n    None => final(state).vars@ == old(state).vars@ && r is None })")],
             safety_id="C13.insert.safety"),
        dict(id="ident", file=CLOSURE, impl=RUNNER_IMPL, name="ident",
             orig_sig="fn ident(&self, index: usize) -> Option<&Ident>",
             wrap=("impl Runner {", "}"), sig="pub fn ident(&self, index: usize) -> (r: Option<&Ident>)",
             desugar=["and_then"],
             rewrites=[dict(**{"from": r"self\s*\.variables\s*\.get\(index\)", "to": "(if index < self.variables.len() { Some(&self.variables[index]) } else { None })", "regex": True, "count": 1, "why": "slice::get by definition"}),
                       dict(**{"from": "(!v.is_empty()).then_some(v)", "to": "(if !v.is_empty() { Some(v) } else { None })", "count": 1, "why": "bool::then_some by definition"})],
             ensures=[("C13.ident.spec", "the i-th closure parameter is the i-th variable unless it is missing or the empty (`_`) name",
                       "opt_deref(r) == spec_ident(*self, index as int)")],
             safety_id="C13.ident.safety"),
        dict(id="run_key_value", file=CLOSURE, impl=RUNNER_IMPL, name="run_key_value",
             orig_sig="fn run_key_value( &self, ctx: &mut Context, key: &str, value: &Value, ) -> Result<Value, ExpressionError>",
             wrap=("impl Runner {", "}"),
             sig="pub fn run_key_value(&self, ctx: &mut Context, key: &Str, value: &Value) -> (r: Result<Value, ExpressionError>)",
             ensures=runner_ensures("run_key_value", 2, True),
             rewrites=[RW_RUNNER,
                       dict(**{"from": r"(insert\(ctx\.state_mut\(\), \w+, \w+)\.into\(\)\)", "to": r"\1.into_value())", "regex": True, "why": "From<_> for Value at the binding of a closure parameter: opaque conversion (trait IntoValue)"})],
             safety_id="C13.run_key_value.safety"),
        dict(id="run_index_value", file=CLOSURE, impl=RUNNER_IMPL, name="run_index_value",
             orig_sig="fn run_index_value( &self, ctx: &mut Context, index: usize, value: &Value, ) -> Result<Value, ExpressionError>",
             wrap=("impl Runner {", "}"),
             sig="pub fn run_index_value(&self, ctx: &mut Context, index: usize, value: &Value) -> (r: Result<Value, ExpressionError>)",
             ensures=runner_ensures("run_index_value", 2, True),
             rewrites=[RW_RUNNER,
                       dict(**{"from": r"(insert\(ctx\.state_mut\(\), \w+, \w+)\.into\(\)\)", "to": r"\1.into_value())", "regex": True, "why": "From<_> for Value at the binding of a closure parameter: opaque conversion (trait IntoValue)"})],
             safety_id="C13.run_index_value.safety"),
        dict(id="map_key", file=CLOSURE, impl=RUNNER_IMPL, name="map_key",
             orig_sig="fn map_key(&self, ctx: &mut Context, key: &mut KeyString) -> Result<(), ExpressionError>",
             wrap=("impl Runner {", "}"),
             sig="pub fn map_key(&self, ctx: &mut Context, key: &mut KeyString) -> (r: Result<(), ExpressionError>)",
             ensures=runner_ensures("map_key", 1, False),
             rewrites=[RW_RUNNER,
                       dict(**{"from": r"(insert\(ctx\.state_mut\(\), \w+, \w+)\.into\(\)\)", "to": r"\1.into_value())", "regex": True, "why": "From<_> for Value at the binding of a closure parameter: opaque conversion (trait IntoValue)"}),
                       dict(**{"from": ".try_bytes_utf8_lossy()?.into()", "to": ".try_into_key_string()?", "why": "Value -> KeyString conversion or non-control-flow Error (havoc contract)"})],
             safety_id="C13.map_key.safety"),
        dict(id="map_value", file=CLOSURE, impl=RUNNER_IMPL, name="map_value",
             orig_sig="fn map_value(&self, ctx: &mut Context, value: &mut Value) -> Result<(), ExpressionError>",
             wrap=("impl Runner {", "}"),
             sig="pub fn map_value(&self, ctx: &mut Context, value: &mut Value) -> (r: Result<(), ExpressionError>)",
             ensures=runner_ensures("map_value", 1, False) + [
                 ("C06.map_value.value", "the mapped value is the closure's value, or the value given to `return`",
                  "iteration_value(final(ctx).trace@.last()->RunClosure_0) is Ok ==> r is Ok && *final(value) == iteration_value(final(ctx).trace@.last()->RunClosure_0)->Ok_0")],
             rewrites=[RW_RUNNER],
             safety_id="C13.map_value.safety"),
    ],
)

# ------------------------------------------------------------------------------------------------
OPRS = "src/compiler/expression/op.rs"
PRE, POST = "old(ctx).trace@", "final(ctx).trace@"
CTL = ("ctl_propagates(%s, %s, r)" % (PRE, POST))
RW_USE_VALUE = dict(**{"from": "use crate::value::Value::", "to": "use crate::Value::", "why": "module path of the prelude Value"})
RW_USE_OPCODE = dict(**{"from": "use ast::Opcode::", "to": "use crate::Opcode::", "why": "module path of the prelude Opcode"})
RW_FALSE_INTO = dict(**{"from": "Ok(false.into())", "to": "Ok(Value::Boolean(false))", "why": "From<bool> for Value"})
RW_OK_INTO = dict(**{"from": r"Ok\((\(?!?lhs\.eq_lossy\(&rhs\)\)?)\.into\(\)\)", "to": r"Ok(Value::Boolean(\1))", "regex": True, "why": "From<bool> for Value"})

UNITS["v_op_resolve"] = dict(
    prop=["C06", "C07", "C08", "C09"], tier="q", prelude=["interp.rs", "nodes.rs", "op.rs"], native_witness={"C06": ["ctl_programs"], "C07": ["ctl_programs"], "C08": ["ctl_programs"], "C09": ["ctl_programs"]},
    fns=[dict(
        id="op_resolve", file=OPRS, impl="impl Expression for Op", name="resolve",
        orig_sig="fn resolve(&self, ctx: &mut Context) -> Resolved",
        wrap=("impl Op {", "}"),
        sig="pub fn resolve(&self, ctx: &mut Context) -> (r: Resolved)",
        desugar=["or_else", "map_err", "try_or"],
        rewrites=[RW_USE_VALUE, RW_USE_OPCODE, RW_FALSE_INTO, RW_OK_INTO],
        ensures=[
            ("C06.op.ctl", "a `return` raised by an operand of any binary operator (incl. `??`, `||`, `&&`) ends the operator with that same return; nothing is evaluated after it",
             "forall|i: int| %s.len() <= i < %s.len() && (#[trigger] %s[i]) is Eval && %s[i]->Eval_1 is Err && %s[i]->Eval_1->Err_0 is Return ==> i == %s.len() - 1 && r == %s[i]->Eval_1" % (PRE, POST, POST, POST, POST, POST, POST)),
            ("C07.op.ctl", "an `abort` raised by an operand of any binary operator (incl. `??`, `||`, `&&`) ends the operator with that same abort; nothing is evaluated after it",
             "forall|i: int| %s.len() <= i < %s.len() && (#[trigger] %s[i]) is Eval && %s[i]->Eval_1 is Err && %s[i]->Eval_1->Err_0 is Abort ==> i == %s.len() - 1 && r == %s[i]->Eval_1" % (PRE, POST, POST, POST, POST, POST, POST)),
            ("C09.op.lhs_first", "the left operand is always evaluated first and the trace only grows",
             "is_prefix(%s, %s) && added(%s, %s) >= 1 && eval_of(nth(%s, %s, 0), self.lhs.id@)" % (PRE, POST, PRE, POST, PRE, POST)),
            ("C08.op.err_ok", "`a ?? b`: when a succeeds the result is a's value and b is not evaluated",
             "self.opcode is Err && outcome(nth(%s, %s, 0)) is Ok ==> added(%s, %s) == 1 && r == outcome(nth(%s, %s, 0))" % (PRE, POST, PRE, POST, PRE, POST)),
            ("C08.op.err_fallback", "`a ?? b`: when a fails with a runtime error the result is the outcome of b",
             "self.opcode is Err && outcome(nth(%s, %s, 0)) is Err && !is_ctl(outcome(nth(%s, %s, 0))->Err_0) ==> added(%s, %s) == 2 && eval_of(nth(%s, %s, 1), self.rhs.id@) && r == outcome(nth(%s, %s, 1))" % (PRE, POST, PRE, POST, PRE, POST, PRE, POST, PRE, POST)),
            ("C09.op.or_truthy", "`a || b`: when a is neither null nor false the result is a and b is not evaluated",
             "self.opcode is Or && outcome(nth(%s, %s, 0)) is Ok && !falsy(outcome(nth(%s, %s, 0))->Ok_0) ==> added(%s, %s) == 1 && r == outcome(nth(%s, %s, 0))" % (PRE, POST, PRE, POST, PRE, POST, PRE, POST)),
            ("C09.op.or_falsy", "`a || b`: when a is null or false, b is evaluated and its value is the result",
             "self.opcode is Or && outcome(nth(%s, %s, 0)) is Ok && falsy(outcome(nth(%s, %s, 0))->Ok_0) ==> added(%s, %s) == 2 && eval_of(nth(%s, %s, 1), self.rhs.id@) && (outcome(nth(%s, %s, 1)) is Ok ==> r == outcome(nth(%s, %s, 1)))" % (PRE, POST, PRE, POST, PRE, POST, PRE, POST, PRE, POST, PRE, POST)),
            ("C09.op.and_short", "`a && b`: when a is null or false the result is false and b is not evaluated",
             "self.opcode is And && outcome(nth(%s, %s, 0)) is Ok && falsy(outcome(nth(%s, %s, 0))->Ok_0) ==> added(%s, %s) == 1 && r == Ok::<Value, ExpressionError>(Value::Boolean(false))" % (PRE, POST, PRE, POST, PRE, POST)),
            ("C09.op.and_full", "`a && b`: otherwise b is evaluated and the result is the boolean conjunction (null rhs counts as false)",
             "self.opcode is And && outcome(nth(%s, %s, 0)) is Ok && !falsy(outcome(nth(%s, %s, 0))->Ok_0) ==> added(%s, %s) == 2 && eval_of(nth(%s, %s, 1), self.rhs.id@) && (outcome(nth(%s, %s, 1)) is Ok && spec_and(outcome(nth(%s, %s, 0))->Ok_0, outcome(nth(%s, %s, 1))->Ok_0) is Some ==> r == Ok::<Value, ExpressionError>(spec_and(outcome(nth(%s, %s, 0))->Ok_0, outcome(nth(%s, %s, 1))->Ok_0)->Some_0))" % ((PRE, POST) * 9)),
            ("C09.op.eager", "every other binary operator evaluates both operands, left then right",
             "!(self.opcode is Err || self.opcode is Or || self.opcode is And) && outcome(nth(%s, %s, 0)) is Ok ==> added(%s, %s) == 2 && eval_of(nth(%s, %s, 1), self.rhs.id@)" % ((PRE, POST) * 3)),
        ],
        safety_id="C04.op_resolve.safety", safety_text="body: `unreachable!()` is unreachable, no arithmetic/bounds obligations fail",
    )],
)

# ------------------------------------------------------------------------------------------------
EXPR = "src/compiler/expression/"
SIG_RESOLVE = "fn resolve(&self, ctx: &mut Context) -> Resolved"
VSIG = "pub fn resolve(&self, ctx: &mut Context) -> (r: Resolved)"


def ctl_clauses(node):
    q = "forall|i: int| %s.len() <= i < %s.len() && (#[trigger] %s[i]) is Eval && %s[i]->Eval_1 is Err && %s[i]->Eval_1->Err_0 is %%s ==> i == %s.len() - 1 && r == %s[i]->Eval_1" % (PRE, POST, POST, POST, POST, POST, POST)
    return [
        ("C06.%s.ctl" % node, "a `return` raised by any child this node evaluates ends the node with that same return; nothing is evaluated or written after it", q % "Return"),
        ("C07.%s.ctl" % node, "an `abort` raised by any child this node evaluates ends the node with that same abort; nothing is evaluated or written after it", q % "Abort"),
        ("C09.%s.prefix" % node, "the node only appends to the evaluation trace", "is_prefix(%s, %s)" % (PRE, POST)),
    ]


TRY_FOR_EACH = dict(**{
    "from": r"other\s*\.iter\(\)\s*\.try_for_each\(\|expr\| expr\.resolve\(ctx\)\.map\(\|_\| \(\)\)\)\?;",
    "regex": True, "count": 1,
    "to": """let ghost __pre = ctx.trace@;
        let mut __i: usize = 0;
        while __i < other.len()
            invariant __pre == old(ctx).trace@, other@.len() == self.inner@.len() - 1, forall|k: int| 0 <= k < other@.len() ==> other@[k] == self.inner@[k],
                      __i <= other@.len(), is_prefix(__pre, ctx.trace@), ctx.trace@.len() == __pre.len() + __i,
                      all_ok_in(ctx.trace@, __pre.len() as int, ctx.trace@.len() as int),
                      evals_in_order(ctx.trace@, __pre.len() as int, other@, __i as int),
            decreases other@.len() - __i,
        {
            match other[__i].resolve(ctx) { core::result::Result::Ok(_) => {}, core::result::Result::Err(__e) => { return core::result::Result::Err(__e); } }
            __i += 1;
        }""",
    "why": "Iterator::try_for_each by definition: call the closure on each element in order, stop at the first Err and return it"})

COLLECT_ARRAY = dict(**{
    "from": r"self\.inner\s*\.iter\(\)\s*\.map\(\|expr\| expr\.resolve\(ctx\)\)\s*\.collect::<Result<Vec<_>, _>>\(\)\s*\.map\(Value::Array\)",
    "regex": True, "count": 1,
    "to": """{
        let ghost __pre = ctx.trace@;
        let mut __out: Vec<Value> = Vec::new();
        let mut __i: usize = 0;
        while __i < self.inner.len()
            invariant __pre == old(ctx).trace@, __i <= self.inner@.len(), is_prefix(__pre, ctx.trace@), ctx.trace@.len() == __pre.len() + __i,
                      all_ok_in(ctx.trace@, __pre.len() as int, ctx.trace@.len() as int),
                      evals_in_order(ctx.trace@, __pre.len() as int, self.inner@, __i as int),
            decreases self.inner@.len() - __i,
        {
            match self.inner[__i].resolve(ctx) { core::result::Result::Ok(__v) => { __out.push(__v); }, core::result::Result::Err(__e) => { return core::result::Result::Err(__e); } }
            __i += 1;
        }
        core::result::Result::Ok(value_array(__out))
        }""",
    "why": "iter().map(f).collect::<Result<Vec<_>,_>>() by definition (FromIterator for Result): evaluate in order, stop at the first Err and return it; .map(Value::Array) wraps the Ok vector"})

COLLECT_OBJECT = dict(**{
    "from": r"self\.inner\s*\.iter\(\)\s*\.map\(\|\(key, expr\)\| expr\.resolve\(ctx\)\.map\(\|v\| \(key\.clone\(\), v\)\)\)\s*\.collect::<Result<BTreeMap<_, _>, _>>\(\)\s*\.map\(Value::Object\)",
    "regex": True, "count": 1,
    "to": """{
        let ghost __pre = ctx.trace@;
        let mut __out: Vec<(KeyString, Value)> = Vec::new();
        let mut __i: usize = 0;
        while __i < self.inner.len()
            invariant __pre == old(ctx).trace@, __i <= self.inner@.len(), is_prefix(__pre, ctx.trace@), ctx.trace@.len() == __pre.len() + __i,
                      all_ok_in(ctx.trace@, __pre.len() as int, ctx.trace@.len() as int),
                      evals_in_order(ctx.trace@, __pre.len() as int, kids_of_object(self.inner@), __i as int),
            decreases self.inner@.len() - __i,
        {
            match self.inner[__i].1.resolve(ctx) { core::result::Result::Ok(__v) => { __out.push((self.inner[__i].0.clone(), __v)); }, core::result::Result::Err(__e) => { return core::result::Result::Err(__e); } }
            __i += 1;
        }
        core::result::Result::Ok(value_object(__out))
        }""",
    "why": "iter().map(f).collect::<Result<BTreeMap<_,_>,_>>() by definition: evaluate in key order, stop at the first Err"})

ABORT_MSG = dict(**{
    "from": r"let message = self\s*\.message\s*\.as_ref\(\)\s*\.map::<Result<_, ExpressionError>, _>\(\|expr\| \{\s*Ok\(expr\.resolve\(ctx\)\?\.try_bytes_utf8_lossy\(\)\?\.to_string\(\)\)\s*\}\)\s*\.transpose\(\)\?;",
    "regex": True, "count": 1,
    "to": """let message = match self.message.as_ref() {
            core::option::Option::Some(expr) => core::option::Option::Some(expr.resolve(ctx)?.try_message()?),
            core::option::Option::None => core::option::Option::None,
        };""",
    "why": "Option::map(f).transpose()? by definition; try_bytes_utf8_lossy()?.to_string() is the opaque conversion try_message"})

UNITS["v_nodes"] = dict(
    prop=["C06", "C07", "C08", "C09"], tier="q", prelude=["interp.rs", "nodes.rs"], native_witness={"C06": ["ctl_programs"], "C07": ["ctl_programs"], "C08": ["ctl_programs"], "C09": ["ctl_programs"]},
    fns=[
        dict(id="not", file=EXPR + "not.rs", impl="impl Expression for Not", name="resolve", orig_sig=SIG_RESOLVE,
             wrap=("impl Not {", "}"), sig=VSIG,
             rewrites=[dict(**{"from": "Ok((!self.inner.resolve(ctx)?.try_boolean()?).into())",
                               "to": "Ok(Value::Boolean(!self.inner.resolve(ctx)?.try_boolean_ee()?))",
                               "why": "try_boolean + From<ValueError> composed (try_boolean_ee); From<bool> for Value"})],
             ensures=ctl_clauses("not") + [
                 ("C09.not.once", "the operand is evaluated exactly once", "added(%s, %s) == 1 && eval_of(nth(%s, %s, 0), self.inner.id@)" % (PRE, POST, PRE, POST))],
             safety_id="C04.not.safety"),
        dict(id="unary", file=EXPR + "unary.rs", impl="impl Expression for Unary", name="resolve", orig_sig=SIG_RESOLVE,
             wrap=("impl Unary {", "}"), sig=VSIG,
             rewrites=[dict(**{"from": "use Variant::Not;", "to": "use crate::UnaryVariant::Not;", "why": "prelude name of unary::Variant"})],
             ensures=ctl_clauses("unary"), safety_id="C04.unary.safety"),
        dict(id="return", file=EXPR + "return.rs", impl="impl Expression for Return", name="resolve", orig_sig=SIG_RESOLVE,
             wrap=("impl Return {", "}"), sig=VSIG,
             ensures=ctl_clauses("return") + [
                 ("C06.return.raises", "`return e` evaluates e once and, when e succeeds with v, yields the return outcome carrying exactly v",
                  "added(%s, %s) == 1 && eval_of(nth(%s, %s, 0), self.expr.id@) && (outcome(nth(%s, %s, 0)) is Ok ==> r is Err && r->Err_0 is Return && r->Err_0->Return_value == outcome(nth(%s, %s, 0))->Ok_0 && r->Err_0->Return_span == self.span)" % ((PRE, POST) * 4))],
             safety_id="C04.return.safety"),
        dict(id="abort", file=EXPR + "abort.rs", impl="impl Expression for Abort", name="resolve", orig_sig=SIG_RESOLVE,
             wrap=("impl Abort {", "}"), sig=VSIG, rewrites=[ABORT_MSG],
             ensures=ctl_clauses("abort") + [
                 ("C07.abort.raises", "`abort` without a message yields the abort outcome with no message and evaluates nothing; with a message expression that succeeds it yields the abort outcome",
                  "(self.message is None ==> added(%s, %s) == 0 && r is Err && r->Err_0 is Abort && r->Err_0->Abort_message is None && r->Err_0->Abort_span == self.span) && (self.message is Some ==> added(%s, %s) == 1 && (outcome(nth(%s, %s, 0)) is Ok ==> r is Err && (r->Err_0 is Abort || r->Err_0 is Error)))" % ((PRE, POST) * 3))],
             safety_id="C04.abort.safety"),
        dict(id="group", file=EXPR + "group.rs", impl="impl Expression for Group", name="resolve", orig_sig=SIG_RESOLVE,
             wrap=("impl Group {", "}"), sig=VSIG,
             ensures=ctl_clauses("group") + [("C09.group.transparent", "a group yields exactly its inner expression's outcome",
                                              "added(%s, %s) == 1 && r == outcome(nth(%s, %s, 0))" % (PRE, POST, PRE, POST))],
             safety_id="C04.group.safety"),
        dict(id="block", file=EXPR + "block.rs", impl="impl Expression for Block", name="resolve", orig_sig=SIG_RESOLVE,
             wrap=("impl Block {", "}"), sig=VSIG,
             requires=["self.inner@.len() > 0"],
             rewrites=[dict(**{"from": 'self.inner.split_last().expect("at least one expression")', "to": "split_last_expr(&self.inner)", "why": "slice::split_last on a non-empty Vec (precondition: blocks are never empty)"}),
                       TRY_FOR_EACH],
             ensures=ctl_clauses("block") + [
                 ("C09.block.count", "a block evaluates at least one and at most all of its expressions",
                  "added(%s, %s) >= 1 && added(%s, %s) <= self.inner@.len()" % (PRE, POST, PRE, POST)),
                 ("C09.block.order", "a block evaluates its expressions in source order",
                  "evals_in_order(%s, %s.len() as int, self.inner@, added(%s, %s))" % (POST, PRE, PRE, POST)),
                 ("C09.block.stops", "every expression but the last evaluated one succeeded (evaluation stops at the first failure)",
                  "all_ok_in(%s, %s.len() as int, %s.len() - 1)" % (POST, PRE, POST)),
                 ("C09.block.value", "the block's outcome is the outcome of the last expression it evaluated; success means all were evaluated",
                  "added(%s, %s) >= 1 && %s.last() is Eval && r == outcome(%s.last()) && (r is Ok ==> added(%s, %s) == self.inner@.len())" % (PRE, POST, POST, POST, PRE, POST))],
             safety_id="C04.block.safety"),
        dict(id="predicate", file=EXPR + "predicate.rs", impl="impl Expression for Predicate", name="resolve", orig_sig=SIG_RESOLVE,
             wrap=("impl Predicate {", "}"), sig=VSIG, requires=["self.inner.inner@.len() > 0"],
             ensures=ctl_clauses("predicate") + [
                 ("C09.predicate.count", "a predicate evaluates at least one and at most all of its expressions",
                  "added(%s, %s) >= 1 && added(%s, %s) <= self.inner.inner@.len()" % (PRE, POST, PRE, POST)),
                 ("C09.predicate.order", "a predicate evaluates its expressions in source order",
                  "evals_in_order(%s, %s.len() as int, self.inner.inner@, added(%s, %s))" % (POST, PRE, PRE, POST)),
                 ("C09.predicate.stops", "evaluation stops at the first expression that does not succeed",
                  "all_ok_in(%s, %s.len() as int, %s.len() - 1)" % (POST, PRE, POST)),
                 ("C09.predicate.value", "the predicate's outcome is the outcome of the last expression it evaluated",
                  "%s.last() is Eval && r == outcome(%s.last()) && (r is Ok ==> added(%s, %s) == self.inner.inner@.len())" % (POST, POST, PRE, POST))],
             safety_id="C04.predicate.safety"),
        dict(id="array", file=EXPR + "array.rs", impl="impl Expression for Array", name="resolve", orig_sig=SIG_RESOLVE,
             wrap=("impl Array {", "}"), sig=VSIG, rewrites=[COLLECT_ARRAY],
             ensures=ctl_clauses("array") + [
                 ("C09.array.sequence", "an array literal evaluates its elements in order and stops at the first one that does not succeed, yielding that outcome",
                  "added(%s, %s) <= self.inner@.len() && evals_in_order(%s, %s.len() as int, self.inner@, added(%s, %s)) && (r is Ok ==> added(%s, %s) == self.inner@.len() && all_ok_in(%s, %s.len() as int, %s.len() as int)) && (r is Err ==> added(%s, %s) >= 1 && r == outcome(%s.last()))" % (PRE, POST, POST, PRE, PRE, POST, PRE, POST, POST, PRE, POST, PRE, POST, POST))],
             safety_id="C04.array.safety"),
        dict(id="object", file=EXPR + "object.rs", impl="impl Expression for Object", name="resolve", orig_sig=SIG_RESOLVE,
             wrap=("impl Object {", "}"), sig=VSIG, rewrites=[COLLECT_OBJECT],
             ensures=ctl_clauses("object") + [
                 ("C09.object.sequence", "an object literal evaluates its values in key order and stops at the first one that does not succeed, yielding that outcome",
                  "added(%s, %s) <= self.inner@.len() && evals_in_order(%s, %s.len() as int, kids_of_object(self.inner@), added(%s, %s)) && (r is Ok ==> added(%s, %s) == self.inner@.len()) && (r is Err ==> added(%s, %s) >= 1 && r == outcome(%s.last()))" % (PRE, POST, POST, PRE, PRE, POST, PRE, POST, PRE, POST, POST))],
             safety_id="C04.object.safety"),
    ],
)

NODES = UNITS["v_nodes"]["fns"]
NODES += [
    dict(id="container", file=EXPR + "container.rs", impl="impl Expression for Container", name="resolve", orig_sig=SIG_RESOLVE,
         wrap=("impl Container {", "}"), sig=VSIG,
         requires=["self.variant is Block ==> self.variant->Block_0.inner@.len() > 0"],
         rewrites=[dict(**{"from": "use Variant::{Array, Block, Group, Object};", "to": "use crate::ContainerVariant::{Array, Block, Group, Object};", "why": "prelude name of container::Variant"})],
         ensures=ctl_clauses("container"), safety_id="C04.container.safety"),
    dict(id="if_statement", file=EXPR + "if_statement.rs", impl="impl Expression for IfStatement", name="resolve", orig_sig=SIG_RESOLVE,
         wrap=("impl IfStatement {", "}"), sig=VSIG,
         requires=["self.predicate.inner.inner@.len() > 0", "self.if_block.inner@.len() > 0", "self.else_block is Some ==> self.else_block->Some_0.inner@.len() > 0"],
         desugar=["map_or"],
         rewrites=[dict(**{"from": ".try_boolean()?", "to": ".try_boolean_ee()?", "why": "try_boolean + From<ValueError> composed (try_boolean_ee)"})],
         ensures=ctl_clauses("if") + [
             ("C09.if.predicate_first", "the predicate is evaluated first",
              "added(%s, %s) >= 1 && eval_of(nth(%s, %s, 0), self.predicate.inner.inner@[0].id@)" % (PRE, POST, PRE, POST)),
             ("C09.if.missing_else", "when the predicate is false and there is no else branch the result is null and nothing but the predicate was evaluated",
              "self.else_block is None && self.predicate.inner.inner@.len() == 1 && outcome(nth(%s, %s, 0)) == Ok::<Value, ExpressionError>(Value::Boolean(false)) ==> r == Ok::<Value, ExpressionError>(Value::Null) && added(%s, %s) == 1" % (PRE, POST, PRE, POST)),
             ("C09.if.true_branch", "when the predicate is true exactly the if-branch runs (never the else-branch) and its outcome is the result",
              "self.predicate.inner.inner@.len() == 1 && outcome(nth(%s, %s, 0)) == Ok::<Value, ExpressionError>(Value::Boolean(true)) ==> added(%s, %s) >= 2 && added(%s, %s) <= 1 + self.if_block.inner@.len() && evals_in_order(%s, %s.len() as int + 1, self.if_block.inner@, added(%s, %s) - 1) && r == outcome(%s.last())" % (PRE, POST, PRE, POST, PRE, POST, POST, PRE, PRE, POST, POST)),
             ("C09.if.false_branch", "when the predicate is false and an else branch exists exactly the else-branch runs and its outcome is the result",
              "self.else_block is Some && self.predicate.inner.inner@.len() == 1 && outcome(nth(%s, %s, 0)) == Ok::<Value, ExpressionError>(Value::Boolean(false)) ==> added(%s, %s) >= 2 && added(%s, %s) <= 1 + self.else_block->Some_0.inner@.len() && evals_in_order(%s, %s.len() as int + 1, self.else_block->Some_0.inner@, added(%s, %s) - 1) && r == outcome(%s.last())" % (PRE, POST, PRE, POST, PRE, POST, POST, PRE, PRE, POST, POST)),
         ],
         safety_id="C04.if.safety"),
    dict(id="program", file="src/compiler/program.rs", impl="impl Program", name="resolve",
         orig_sig="fn resolve(&self, ctx: &mut Context) -> Resolved",
         wrap=("impl Program {", "}"), sig=VSIG, requires=["self.expressions.inner@.len() > 0"],
         ensures=ctl_clauses("program"), safety_id="C04.program.safety"),
    dict(id="assignment", file=EXPR + "assignment.rs", impl="impl<U> Expression for Variant<Target, U>", name="resolve", orig_sig=SIG_RESOLVE,
         wrap=("impl Variant {", "}"), sig=VSIG,
         rewrites=[dict(**{"from": "use Variant::{Infallible, Single};", "to": "use crate::Variant::{Infallible, Single};", "why": "prelude name"}),
                   dict(**{"from": "Value::from(error.to_string())", "to": "error.to_message_value()", "why": "error message string as a Value (opaque bytes)"})],
         ensures=ctl_clauses("assignment") + [
             ("C08.assign.single", "`target = e`: when e succeeds with v, v is stored in target (one write) and is the value of the assignment; when e does not succeed nothing is written",
              "self is Single ==> added(%s, %s) >= 1 && eval_of(nth(%s, %s, 0), self->Single_expr.id@) && (outcome(nth(%s, %s, 0)) is Ok ==> added(%s, %s) == 2 && nth(%s, %s, 1) == Ev::Write(self->Single_target.tid(), outcome(nth(%s, %s, 0))->Ok_0) && r == outcome(nth(%s, %s, 0))) && (outcome(nth(%s, %s, 0)) is Err ==> added(%s, %s) == 1 && r == outcome(nth(%s, %s, 0)))" % ((PRE, POST) * 10)),
             ("C08.assign.infallible_ok", "`ok, err = e`: when e succeeds with v: ok := v, err := null, value v",
              "self is Infallible && outcome(nth(%s, %s, 0)) is Ok ==> added(%s, %s) == 3 && nth(%s, %s, 1) == Ev::Write(self->Infallible_ok.tid(), outcome(nth(%s, %s, 0))->Ok_0) && nth(%s, %s, 2) == Ev::Write(self->Infallible_err.tid(), Value::Null) && r == outcome(nth(%s, %s, 0))" % ((PRE, POST) * 6)),
             ("C08.assign.infallible_err", "`ok, err = e`: when e fails with a runtime error: ok := the stored default, err := the message, value = the message",
              "self is Infallible && outcome(nth(%s, %s, 0)) is Err && !is_ctl(outcome(nth(%s, %s, 0))->Err_0) ==> added(%s, %s) == 3 && nth(%s, %s, 1) == Ev::Write(self->Infallible_ok.tid(), self->Infallible_default) && nth(%s, %s, 2) is Write && nth(%s, %s, 2)->Write_0 == self->Infallible_err.tid() && nth(%s, %s, 2)->Write_1 is Bytes && r == Ok::<Value, ExpressionError>(nth(%s, %s, 2)->Write_1)" % ((PRE, POST) * 8)),
             ("C08.assign.expr_first", "the right-hand side is evaluated first, exactly once",
              "added(%s, %s) >= 1 && nth(%s, %s, 0) is Eval && (forall|k: int| 1 <= k < added(%s, %s) ==> !((#[trigger] nth(%s, %s, k)) is Eval))" % ((PRE, POST) * 4)),
         ],
         safety_id="C04.assignment.safety"),
    dict(id="function_call", file=EXPR + "function_call.rs", impl="impl Expression for FunctionCall", name="resolve", orig_sig=SIG_RESOLVE,
         wrap=("impl FunctionCall {", "}"), sig=VSIG,
         desugar=["map_err"],
         rewrites=[
             dict(**{"from": r'"return cannot be used inside closures"\.to_owned\(\)', "to": "opaque_msg()", "regex": True, "optional": True, "why": "message text is opaque"}),
             dict(**{"from": r'vec!\[Label::primary\(\s*"return cannot be used inside closures",\s*span,\s*\)\]', "to": "opaque_list()", "regex": True, "optional": True, "why": "labels are opaque"}),
             dict(**{"from": "Vec::new()", "to": "opaque_list()", "optional": True, "why": "notes are opaque"}),
             dict(**{"from": r"format!\(\s*r#\"function call error for .*?message\s*\)", "to": "opaque_msg()", "regex": True, "why": "message text is opaque"}),
         ],
         ensures=ctl_clauses("function_call") + [
             ("C06.function_call.once", "a function call evaluates its compiled function expression exactly once and passes successful values through unchanged",
              "added(%s, %s) == 1 && (outcome(nth(%s, %s, 0)) is Ok ==> r == outcome(nth(%s, %s, 0)))" % ((PRE, POST) * 3)),
             ("C02.function_call.error_class", "a runtime error of the function stays a runtime error (it is only annotated)",
              "outcome(nth(%s, %s, 0)) is Err && outcome(nth(%s, %s, 0))->Err_0 is Error ==> r is Err && r->Err_0 is Error" % ((PRE, POST) * 2)),
         ],
         safety_id="C04.function_call.safety"),
]


UNITS["v_value_error_from"] = dict(
    prop=["C06", "C07", "C08"], tier="q", prelude=["interp.rs", "nodes.rs", "op.rs"], native_witness={"C06": ["ctl_programs"], "C07": ["ctl_programs"], "C08": ["ctl_programs"], "C09": ["ctl_programs"]},
    fns=[dict(
        id="value_error_from", file="src/compiler/value/error.rs", impl="impl From<ValueError> for ExpressionError", name="from",
        orig_sig="fn from(err: ValueError) -> Self",
        sig="pub fn value_error_from(err: ValueError) -> (r: ExpressionError)",
        rewrites=[dict(**{"from": "Self::Error", "to": "ExpressionError::Error", "why": "Self = ExpressionError"}),
                  dict(**{"from": "vec![]", "to": "opaque_list()", "why": "labels/notes are opaque"})],
        ensures=[
            ("C06.value_error_from.return", "a `return` carried through ValueError::Or (rhs of `||`) converts back to the same return",
             "err is Or && err->Or_0 is Return ==> r == err->Or_0"),
            ("C07.value_error_from.abort", "an `abort` carried through ValueError::Or (rhs of `||`) converts back to the same abort",
             "err is Or && err->Or_0 is Abort ==> r == err->Or_0"),
            ("C08.value_error_from.error", "every other value error becomes a plain runtime error (which `??` and `ok, err =` may capture)",
             "!(err is Or && is_ctl(err->Or_0)) ==> r is Error"),
        ],
        safety_id="C04.value_error_from.safety")],
)

# ------------------------------------------------------------------------------------------------
CRUD = "src/value/value/crud/mod.rs"
VEC_IMPL = "impl ValueCollection for Vec<Value>"
RW_SELF = dict(**{"from": r"\bself\b", "to": "this", "regex": True, "why": "trait-impl method emitted as a free function (Verus has no inherent impls on Vec): self -> this"})
LAWS = '''
// ---- C18 laws as lemmas over the whole-sequence specs the real functions are proved against
proof fn law_insert_then_get(s: Seq<Value>, key: int, v: Value)
    ensures spec_get(spec_insert(s, key, v), key) == Some(v),
{
    let t = spec_insert(s, key, v);
    if key >= 0 {
        if key < s.len() { } else { assert(t.len() == key + 1); assert(t[key] == v); }
    } else {
        if -key <= s.len() { } else { assert(t.len() == -key); assert(t[0] == v); }
    }
}
proof fn law_insert_frame_front(s: Seq<Value>, key: int, v: Value, j: int)
    requires key >= 0, 0 <= j < s.len(), j != key,
    ensures spec_insert(s, key, v)[j] == s[j],   // same position counted from the front
{ }
proof fn law_insert_frame_back(s: Seq<Value>, key: int, v: Value, j: int)
    requires key < 0, 0 <= j < s.len(), j != s.len() + key,
    ensures ({ let t = spec_insert(s, key, v); t[t.len() - (s.len() - j)] == s[j] }),   // same position counted from the back
{ }
proof fn law_remove_is_get(s: Seq<Value>, key: int)
    ensures (spec_get(s, key) is None ==> spec_remove(s, key) == s),
            (spec_get(s, key) is Some ==> spec_remove(s, key).len() == s.len() - 1),
{ }
'''

UNITS["v_crud_vec"] = dict(
    prop=["C18"], tier="q", prelude=["crud.rs"], extra=LAWS, native_witness={"C18": ["crud_vec"]},
    fns=[
        dict(id="array_index", file=CRUD, impl=None, name="array_index",
             orig_sig="fn array_index(array: &[Value], index: isize) -> Option<usize>",
             sig="pub fn array_index(array: &[Value], index: isize) -> (r: Option<usize>)",
             requires=["array@.len() <= isize::MAX"],
             ensures=[("C18.array_index.spec", "an index addresses position i from the front when non-negative and len+i when negative; nothing when len+i < 0",
                       "(match spec_index(array@.len() as int, index as int) { Some(i) => r == Some(i as usize), None => r is None })")],
             safety_id="C18.array_index.safety", safety_text="no overflow in `len as isize + index`"),
        dict(id="get_value", file=CRUD, impl=VEC_IMPL, name="get_value",
             orig_sig="fn get_value(&self, key: &Self::Key) -> Option<&Value>",
             sig="pub fn get_value<'a>(this: &'a Vec<Value>, key: &isize) -> (r: Option<&'a Value>)",
             requires=["this@.len() <= isize::MAX"],
             desugar=["and_then"],
             rewrites=[RW_SELF, dict(**{"from": "array_index(this,", "to": "array_index(this.as_slice(),", "why": "explicit deref coercion &Vec -> &[T]"}),
                       dict(**{"from": "this.get(index)", "to": "(if index < this.len() { Some(&this[index]) } else { None })", "why": "slice::get by definition"})],
             ensures=[("C18.get_value.spec", "reading an index returns the addressed element, or nothing when out of range",
                       "opt_val(r) == spec_get(this@, *key as int)")],
             safety_id="C18.get_value.safety"),
        dict(id="insert_value", file=CRUD, impl=VEC_IMPL, name="insert_value",
             orig_sig="fn insert_value(&mut self, key: isize, value: Value) -> Option<Value>",
             sig="#[verifier::loop_isolation(false)]\npub fn insert_value(this: &mut Vec<Value>, key: isize, value: Value) -> (r: Option<Value>)",
             requires=["old(this)@.len() <= isize::MAX", "key > isize::MIN", "old(this)@.len() + (if key >= 0 { key as int } else { -(key as int) }) < isize::MAX"],
             rewrites=[RW_SELF],
             loops={"_count": 2,
                    0: dict(spec="invariant key >= 0, this@.len() <= key as usize + 1, this@.len() >= old(this)@.len(), this@ == old(this)@ + nulls((this@.len() - old(this)@.len()) as nat), old(this)@.len() <= key as usize,\n decreases key as usize + 1 - this@.len(),"),
                    1: dict(spec="invariant key < 0, key > isize::MIN, this@.len() >= old(this)@.len(), this@.len() <= (-key) as usize - 1, this@ == nulls((this@.len() - old(this)@.len()) as nat) + old(this)@, old(this)@.len() < (-key) as usize,\n decreases (-key) as usize - 1 - this@.len(),")},
             ensures=[("C18.insert_value.whole", "after inserting, the whole array equals the specified result: the addressed slot holds the value, padding is null, every other element is kept (same position from the end the index counts from)",
                       "final(this)@ == spec_insert(old(this)@, key as int, value)"),
                      ("C18.insert_value.previous", "the previous element at the addressed slot is returned (nothing when the array had to grow)",
                       "r == spec_get(old(this)@, key as int)")],
             safety_id="C18.insert_value.safety", safety_text="no overflow, indexing in bounds, both padding loops terminate"),
        dict(id="remove_value", file=CRUD, impl=VEC_IMPL, name="remove_value",
             orig_sig="fn remove_value(&mut self, key: &isize) -> Option<Value>",
             sig="pub fn remove_value(this: &mut Vec<Value>, key: &isize) -> (r: Option<Value>)",
             requires=["old(this)@.len() <= isize::MAX"],
             rewrites=[RW_SELF, dict(**{"from": "array_index(this,", "to": "array_index(this.as_slice(),", "optional": True, "why": "explicit deref coercion &Vec -> &[T]"})],
             ensures=[("C18.remove_value.returns_get", "removing returns exactly what reading the index returned before",
                       "r == spec_get(old(this)@, *key as int)"),
                      ("C18.remove_value.whole", "removing deletes exactly the addressed element and keeps every other element in order; an out-of-range index changes nothing",
                       "final(this)@ == spec_remove(old(this)@, *key as int)")],
             safety_id="C18.remove_value.safety"),
    ],
)

# ------------------------------------------------------------------------------------------------
UNITS["v_format_radix"] = dict(
    prop=["C25", "C04", "C05"], tier="q", prelude=["format_int.rs"], native_witness={"C25": ["format_int"], "C04": ["format_int"]},
    extra='''
proof fn lemma_round_trip(x: i64, radix: int, out: Seq<char>)
    requires out.len() >= 1, (x < 0) == (out[0] == '-'),
             ({ let d = if x < 0 { out.drop_first() } else { out }; d.len() >= 1 && all_digits(d, radix) && val(d, radix) == abs_i64(x) }),
    ensures parsed(out, radix) == x as int,
{ }
''',
    fns=[dict(
        id="format_radix", file="src/stdlib/format_int.rs", impl=None, name="format_radix",
        orig_sig="fn format_radix(x: i64, radix: u32) -> String",
        sig="pub fn format_radix(x: i64, radix: u32) -> (r: VecDeque<char>)",
        requires=["2 <= radix <= 36"],
        rewrites=[
            dict(**{"from": "result.into_iter().collect()", "to": "result", "count": 1, "why": "the String is the chars in order (collect); contract stated on the char sequence"}),
            dict(**{"from": r"\n(\s*)loop \{", "to": r"\n\1let ghost x0 = x as int;\n\1loop {", "regex": True, "count": 1, "why": "ghost: magnitude before the loop"}),
            dict(**{"from": r"\n(\s*)if x == 0 \{", "regex": True, "count": 1,
                    "to": r"\n\1proof { lemma_step(xo, radix as int, pow(radix as int, ro.len()), val(ro, radix as int), m as int, x as int); lemma_push_front(ro, result@[0], radix as int); assert(result@ =~= seq![result@[0]] + ro); }\n\1if x == 0 {",
                    "why": "proof hint (nonlinear arithmetic lemma) before the loop exit test"}),
            dict(**{"from": r"\n(\s*)if negative \{\s*result\.push_front\('-'\);", "regex": True, "count": 1,
                    "to": r"\n\1let ghost digits = result@;\n\1proof { assert(x as int * pow(radix as int, digits.len()) == 0) by(nonlinear_arith) requires x == 0; }\n\1if negative {\n\1    result.push_front('-');\n\1    proof { assert(result@.drop_first() =~= digits); }",
                    "why": "proof hints after the loop"}),
        ],
        loops={"_count": 1, 0: dict(
            spec="invariant 2 <= radix <= 36, x0 == x * pow(radix as int, result@.len()) + val(result@, radix as int), all_digits(result@, radix as int),\n ensures x == 0, result@.len() >= 1,\n decreases x,",
            start="let ghost xo = x as int; let ghost ro = result@;")},
        ensures=[
            ("C25.format_radix.sign", "the output starts with '-' exactly for negative inputs", "r@.len() >= 1 && ((x < 0) == (r@[0] == '-'))"),
            ("C25.format_radix.digits", "every other character is a valid digit of the radix and there is at least one",
             "({ let d = if x < 0 { r@.drop_first() } else { r@ }; d.len() >= 1 && all_digits(d, radix as int) })"),
            ("C25.format_radix.value", "the digits' positional value is |x| for every i64 (so parsing the text in the same base restores x)",
             "({ let d = if x < 0 { r@.drop_first() } else { r@ }; val(d, radix as int) == abs_i64(x) })"),
        ],
        safety_id="C25.format_radix.safety", safety_text="no arithmetic overflow (incl. x == i64::MIN), from_digit never None, the digit loop terminates (decreases x)",
    )],
)

# ------------------------------------------------------------------------------------------------
TGT_SAME = "final(ctx).target == old(ctx).target"
UNITS["v_target_ops"] = dict(
    prop=["C17", "C06", "C07", "C16", "C08"], tier="q", prelude=["interp.rs", "target.rs"], native_witness={"C17": ["target_faults"]},
    fns=[
        dict(id="external_path", file=EXPR + "query.rs", impl="impl Query", name="external_path",
             orig_sig="fn external_path(&self) -> Option<OwnedTargetPath>",
             wrap=("impl Query {", "}"), sig="pub fn external_path(&self) -> (r: Option<OwnedTargetPath>)",
             rewrites=[dict(**{"from": "Target::External(prefix)", "to": "QueryTarget::External(prefix)", "why": "prelude name of query::Target"})],
             ensures=[("C16.external_path.spec", "a query reports an external path exactly when its target is the event or metadata, with its own prefix and path",
                       "(match self.target { QueryTarget::External(p) => r == Some(OwnedTargetPath { prefix: p, path: self.path }), _ => r is None })")],
             safety_id="C04.external_path.safety"),
        dict(id="query_resolve", file=EXPR + "query.rs", impl="impl Expression for Query", name="resolve", orig_sig=SIG_RESOLVE,
             wrap=("impl Query {", "}"), sig=VSIG,
             rewrites=[dict(**{"from": "use Target::{Container, External, FunctionCall, Internal};", "to": "use crate::QueryTarget::{Container, External, FunctionCall, Internal};", "why": "prelude name of query::Target"})],
             ensures=[
                 ("C16.query.reads_own_path", "the only event/metadata location an external query reads is its own prefix and path (the one compile_query reports)",
                  "self.target is External ==> r == Ok::<Value, ExpressionError>(read_as_missing(old(ctx).target.spec_get(OwnedTargetPath { prefix: self.target->External_0, path: self.path })))"),
                 ("C17.query.read_fault_is_missing", "an external query yields the target's value, and null both for a missing field and for a rejected read; it never fails",
                  "self.target is External ==> r == Ok::<Value, ExpressionError>(read_as_missing(old(ctx).target.spec_get(OwnedTargetPath { prefix: self.target->External_0, path: self.path })))"),
                 ("C17.query.no_target_write", "an external query performs no target write or deletion and evaluates nothing",
                  "self.target is External ==> %s && final(ctx).trace@ == old(ctx).trace@" % TGT_SAME),
                 ("C06.query.ctl", "abort/return raised by the queried expression propagate unchanged",
                  "!(self.target is External) ==> final(ctx).trace@.len() == old(ctx).trace@.len() + 1 && (final(ctx).trace@.last() is Eval) && (final(ctx).trace@.last()->Eval_1 is Err ==> r == final(ctx).trace@.last()->Eval_1)"),
             ],
             safety_id="C17.query_resolve.safety", safety_text="no panic on any target answer"),
        dict(id="del", file="src/stdlib/del.rs", impl=None, name="del",
             orig_sig="fn del(query: &expression::Query, compact: bool, ctx: &mut Context) -> Resolved",
             sig="pub fn del(query: &Query, compact: bool, ctx: &mut Context) -> (r: Resolved)",
             ensures=[
                 ("C17.del.fault_is_null", "deleting an external path yields the removed value, and null when nothing was there or the target rejected the deletion; it never fails",
                  "query.target is External ==> final(ctx).target.ops@.len() == old(ctx).target.ops@.len() + 1 && final(ctx).target.ops@.last() is Remove && r == Ok::<Value, ExpressionError>(match final(ctx).target.ops@.last()->Remove_2 { Ok(Some(v)) => v, _ => Value::Null })"),
                 ("C16.del.removes_own_path", "del removes exactly the query's own prefix and path (reported as a query by compile_query)",
                  "query.target is External ==> final(ctx).target.ops@ == old(ctx).target.ops@.push(final(ctx).target.ops@.last()) && final(ctx).target.ops@.last()->Remove_0 == (OwnedTargetPath { prefix: query.target->External_0, path: query.path }) && final(ctx).target.ops@.last()->Remove_1 == compact"),
                 ("C17.del.one_op", "exactly one target removal, on the query's own path, with the requested compaction; no retry and no other target operation",
                  "query.target is External ==> final(ctx).target.ops@ == old(ctx).target.ops@.push(final(ctx).target.ops@.last()) && final(ctx).target.ops@.last()->Remove_0 == (OwnedTargetPath { prefix: query.target->External_0, path: query.path }) && final(ctx).target.ops@.last()->Remove_1 == compact"),
                 ("C17.del.internal_no_target", "deleting from a variable or an expression never touches the target",
                  "query.target is Internal ==> %s" % TGT_SAME),
             ],
             safety_id="C17.del.safety", safety_text="no panic on any target answer"),
        dict(id="exists", file="src/stdlib/exists.rs", impl=None, name="exists",
             orig_sig="fn exists(query: &expression::Query, ctx: &mut Context) -> Resolved",
             sig="pub fn exists(query: &Query, ctx: &mut Context) -> (r: Resolved)",
             rewrites=[dict(**{"from": r"Ok\(((?:(?!Ok\().)*?)\.is_some\(\)\s*\.into\(\)\)", "to": r"Ok(Value::Boolean(\1.is_some()))", "regex": True, "why": "From<bool> for Value"}),
                       dict(**{"from": "Ok(false.into())", "to": "Ok(Value::Boolean(false))", "why": "From<bool> for Value"})],
             ensures=[
                 ("C16.exists.reads_own_path", "exists reads exactly the query's own prefix and path",
                  "query.target is External ==> r == Ok::<Value, ExpressionError>(Value::Boolean(old(ctx).target.spec_get(OwnedTargetPath { prefix: query.target->External_0, path: query.path }) is Ok && old(ctx).target.spec_get(OwnedTargetPath { prefix: query.target->External_0, path: query.path })->Ok_0 is Some))"),
                 ("C17.exists.fault_is_missing", "exists() on an external path is true exactly when the read succeeds with a value: a rejected read counts as missing; it never fails",
                  "query.target is External ==> r == Ok::<Value, ExpressionError>(Value::Boolean(old(ctx).target.spec_get(OwnedTargetPath { prefix: query.target->External_0, path: query.path }) is Ok && old(ctx).target.spec_get(OwnedTargetPath { prefix: query.target->External_0, path: query.path })->Ok_0 is Some))"),
                 ("C17.exists.no_write", "exists() performs no target write or deletion", "query.target is External || query.target is Internal ==> final(ctx).target.ops@ == old(ctx).target.ops@"),
             ],
             safety_id="C17.exists.safety"),
        dict(id="unnest", file="src/stdlib/unnest.rs", impl=None, name="unnest",
             orig_sig="fn unnest(path: &expression::Query, ctx: &mut Context) -> Resolved",
             sig="pub fn unnest(path: &Query, ctx: &mut Context) -> (r: Resolved)",
             rewrites=[dict(**{"from": "expression::Target::", "to": "QueryTarget::", "why": "prelude name of query::Target"})],
             ensures=[
                 ("C16.unnest.reads_root_of_prefix", "unnest reads the root of the query's prefix (an ancestor of the reported query path)",
                  "path.target is External ==> r == spec_unnest_root(read_as_missing(old(ctx).target.spec_get(OwnedTargetPath::root_spec(path.target->External_0))), path.path)"),
                 ("C17.unnest.read_fault_is_missing", "unnest of an external path treats a rejected (or empty) read of the root exactly like a null root: it never panics",
                  "path.target is External ==> r == spec_unnest_root(read_as_missing(old(ctx).target.spec_get(OwnedTargetPath::root_spec(path.target->External_0))), path.path)"),
                 ("C17.unnest.no_write", "unnest performs no target write or deletion", "path.target is External || path.target is Internal ==> final(ctx).target.ops@ == old(ctx).target.ops@"),
             ],
             safety_id="C17.unnest.safety", safety_text="no expect/unwrap can fail whatever the target answers"),
        dict(id="target_insert", file=EXPR + "assignment.rs", impl="impl Target", name="insert",
             orig_sig="fn insert(&self, value: Value, ctx: &mut Context)",
             wrap=("impl ATarget {", "}"), sig="pub fn insert(&self, value: Value, ctx: &mut Context)",
             rewrites=[dict(**{"from": "use Target::{External, Internal, Noop};", "to": "use crate::ATarget::{External, Internal, Noop};", "why": "prelude name of assignment::Target"}),
                       dict(**{"from": "drop(ctx.target_mut().target_insert(path, value));", "to": "let _ = ctx.target_mut().target_insert(path, value);", "why": "drop(x) == let _ = x for a Result<(), String>"})],
             ensures=[
                 ("C16.assign.writes_own_path", "an external assignment writes exactly its own target path (the one Assignment::targets reports)",
                  "self is External ==> final(ctx).target.ops@.len() == old(ctx).target.ops@.len() + 1 && final(ctx).target.ops@ == old(ctx).target.ops@.push(final(ctx).target.ops@.last()) && final(ctx).target.ops@.last() is Insert && final(ctx).target.ops@.last()->Insert_0 == self->External_0 && final(ctx).target.ops@.last()->Insert_1 == value && final(ctx).state == old(ctx).state"),
                 ("C17.assign.one_write", "an external assignment performs exactly one target insert of the value at its own path; a rejected write is not retried or redirected, and the variable store is untouched",
                  "self is External ==> final(ctx).target.ops@.len() == old(ctx).target.ops@.len() + 1 && final(ctx).target.ops@ == old(ctx).target.ops@.push(final(ctx).target.ops@.last()) && final(ctx).target.ops@.last() is Insert && final(ctx).target.ops@.last()->Insert_0 == self->External_0 && final(ctx).target.ops@.last()->Insert_1 == value && final(ctx).state == old(ctx).state"),
                 ("C17.assign.internal_no_target", "assigning to a variable or to `_` never touches the target",
                  "!(self is External) ==> %s" % TGT_SAME),
                 ("C08.assign.variable_root", "assigning a whole variable stores exactly the value under that identifier and changes no other variable",
                  "self is Internal && self->Internal_1.root ==> final(ctx).state.vars@ == old(ctx).state.vars@.insert(self->Internal_0.id, value)"),
                 ("C08.assign.noop", "assigning to `_` changes nothing", "self is Noop ==> final(ctx).state == old(ctx).state && %s" % TGT_SAME),
             ],
             safety_id="C17.target_insert.safety", safety_text="no panic whatever the target answers"),
        dict(id="runtime_resolve", file="src/compiler/runtime.rs", impl="impl Runtime", name="resolve",
             orig_sig="fn resolve( &mut self, target: &mut dyn Target, program: &Program, timezone: &TimeZone, ) -> RuntimeResult",
             wrap=("impl Runtime {", "}"),
             sig="pub fn resolve(&mut self, target: &mut TargetObj, program: &ProgramObj, timezone: &TimeZone) -> (r: RuntimeResult)",
             rewrites=[dict(**{"from": '"expected target object, got nothing".to_owned().into()', "to": "opaque_error()", "why": "error message text is opaque (String -> ExpressionError::Error)"}),
                       dict(**{"from": r'format!\("error querying target object: \{err\}"\)\.into\(\)', "to": "opaque_error()", "regex": True, "why": "error message text is opaque"}),
                       dict(**{"from": r"let mut ctx = Context::new\(target, &mut self\.state, timezone\);\s*match program\.resolve\(&mut ctx\) \{", "regex": True, "count": 1,
                               "to": "match program.resolve_with(target, &mut self.state, timezone) {", "why": "Context is a bundle of the three borrows; running the program is the child contract resolve_with"})],
             ensures=[
                 ("C17.runtime.root_unreadable", "a target whose root cannot be read (fault or nothing there) ends the run with an error and the program is not run",
                  "!(old(target).spec_get(OwnedTargetPath::event_root_spec()) is Ok && old(target).spec_get(OwnedTargetPath::event_root_spec())->Ok_0 is Some) ==> r is Err && r->Err_0 is Error && final(target).ops@ == old(target).ops@"),
                 ("C06.runtime.outcome", "otherwise the program runs exactly once; success and `return v` end the run successfully with the value, abort ends it with the abort outcome unchanged, a runtime error with Terminate::Error",
                  "(old(target).spec_get(OwnedTargetPath::event_root_spec()) is Ok && old(target).spec_get(OwnedTargetPath::event_root_spec())->Ok_0 is Some) ==> final(target).ops@.len() == old(target).ops@.len() + 1 && final(target).ops@ == old(target).ops@.push(final(target).ops@.last()) && final(target).ops@.last() is ProgramRun && r == run_outcome(final(target).ops@.last()->ProgramRun_0)"),
             ],
             safety_id="C17.runtime_resolve.safety", safety_text="no panic whatever the target answers"),
    ],
)

# ------------------------------------------------------------------------------------------------
SEGM = "|a: OwnedSegment, p: OwnedSegment| seg_match(a, p)"
SEGA = "|a: OwnedSegment, p: OwnedSegment| seg_may_alias(a, p)"
UNITS["v_read_only"] = dict(
    prop=["C15"], tier="q", prelude=["readonly.rs"], native_witness={"C15": ["read_only"]},
    fns=[
        dict(id="segment_can_start_with", file="src/path/owned.rs", impl="impl OwnedSegment", name="can_start_with",
             orig_sig="fn can_start_with(&self, prefix: &OwnedSegment) -> bool",
             wrap=("impl OwnedSegment {", "}"), sig="pub fn can_start_with(&self, prefix: &OwnedSegment) -> (r: bool)",
             ensures=[("C15.segment.sound", "two segments that may address the same element (same field, same index, or indices of different sign) are never reported as disjoint",
                       "seg_may_alias(*self, *prefix) ==> r"),
                      ("C15.segment.precise", "segments that can never address the same element are reported as disjoint",
                       "!seg_may_alias(*self, *prefix) ==> !r")],
             safety_id="C15.segment.safety"),
        dict(id="target_path_can_start_with", file="src/path/owned.rs", impl="impl OwnedTargetPath", name="can_start_with",
             orig_sig="fn can_start_with(&self, prefix: &Self) -> bool",
             wrap=("impl OwnedTargetPath {", "}"), sig="pub fn can_start_with(&self, prefix: &OwnedTargetPath) -> (r: bool)",
             rewrites=[dict(**{"from": "(&self.path).can_start_with(&prefix.path)", "to": "self.path.can_start_with_path(&prefix.path)", "why": "generic ValuePath::can_start_with: callee contract (Kani unit k_value_path_can_start_with)"})],
             ensures=[("C15.target_path.starts", "a target path starts with another exactly when the prefixes (event/metadata) agree and the segments match pairwise",
                       "r == tstarts(*self, *prefix, %s)" % SEGA)],
             safety_id="C15.target_path.safety"),
        dict(id="is_read_only_path", file="src/compiler/compile_config.rs", impl="impl CompileConfig", name="is_read_only_path",
             orig_sig="fn is_read_only_path(&self, path: &OwnedTargetPath) -> bool",
             wrap=("impl CompileConfig {", "}"), sig="pub fn is_read_only_path(&self, path: &OwnedTargetPath) -> (r: bool)",
             rewrites=[dict(**{"from": "for read_only_path in &self.read_only_paths {", "to": "for read_only_path in it: self.read_only_paths.iter() {", "count": 1, "why": "BTreeSet iteration = a sequence of entries; Verus for-loop syntax with a named iterator"}),
                       dict(**{"from": "path == &read_only_path.path", "to": "path.same_as(&read_only_path.path)", "count": 1, "why": "derived PartialEq on OwnedTargetPath"})],
             loops={"_count": 1, 0: dict(spec="invariant forall|k: int| 0 <= k < it.index@ ==> !blocked(#[trigger] self.read_only_paths@[k], *path, %s)," % SEGA)},
             ensures=[("C15.is_read_only.rule", "a path is refused exactly when some read-only entry is at or below it, equals it, or (recursive entries) contains it",
                       "r == exists|k: int| 0 <= k < self.read_only_paths@.len() && blocked(#[trigger] self.read_only_paths@[k], *path, %s)" % SEGA),
                      ("C15.is_read_only.no_reach", "an accepted write can not reach any read-only location: no entry is (possibly) at, below or - for recursive entries - above the written path, counting negative/non-negative index aliasing",
                       "!r ==> forall|k: int| 0 <= k < self.read_only_paths@.len() ==> !may_reach(#[trigger] self.read_only_paths@[k], *path)")],
             safety_id="C15.is_read_only.safety"),
        dict(id="set_read_only_path", file="src/compiler/compile_config.rs", impl="impl CompileConfig", name="set_read_only_path",
             orig_sig="fn set_read_only_path(&mut self, path: OwnedTargetPath, recursive: bool)",
             wrap=("impl CompileConfig {", "}"), sig="pub fn set_read_only_path(&mut self, path: OwnedTargetPath, recursive: bool)",
             rewrites=[dict(**{"from": r"self\.read_only_paths\s*\.insert\(", "to": "set_insert(&mut self.read_only_paths, ", "regex": True, "count": 1, "why": "BTreeSet::insert on the entry set (std contract set_insert)"})],
             ensures=[("C15.set_read_only_path.registers", "marking a path read-only always registers that entry (with its recursive flag) and keeps every entry registered before",
                       "has_entry(final(self).read_only_paths@, ReadOnlyPath { path: path, recursive: recursive }) && forall|x: ReadOnlyPath| has_entry(old(self).read_only_paths@, x) ==> has_entry(final(self).read_only_paths@, x)")],
             safety_id="C15.set_read_only_path.safety"),
        dict(id="verify_mutable", file="src/compiler/expression/assignment.rs", impl=None, name="verify_mutable",
             orig_sig="fn verify_mutable( target: &Target, config: &CompileConfig, expr_span: Span, assignment_span: Span, ) -> Result<(), Error>",
             sig="pub fn verify_mutable(target: &Target, config: &CompileConfig, expr_span: Span, assignment_span: Span) -> (r: Result<(), Error>)",
             ensures=[("C15.verify_mutable.guard", "an assignment is rejected at compile time exactly when its target is an event/metadata path the configuration refuses; variable and `_` targets are always accepted",
                       "(r is Err) == (target is External && spec_is_read_only(*config, target->External_0))"),
                      ("C15.verify_mutable.kind", "the rejection is the read-only error", "r is Err ==> r->Err_0.variant is ReadOnly")],
             safety_id="C15.verify_mutable.safety"),
    ],
)

# ------------------------------------------------------------------------------------------------
UNITS["v_constants"] = dict(
    prop=["C12", "C01"], tier="q", prelude=["interp.rs", "typestate.rs"], native_witness={"C12": ["constants", "op_typing"], "C01": ["op_typing", "constants"]},
    fns=[
        dict(id="details_merge", file="src/compiler/type_def.rs", impl="impl Details", name="merge",
             orig_sig="fn merge(self, other: Self) -> Self",
             wrap=("impl Details {", "}"), sig="pub fn merge(self, other: Details) -> (r: Details)",
             rewrites=[dict(**{"from": "self.value == other.value", "to": "values_equal(&self.value, &other.value)", "why": "derived PartialEq on Option<Value>"})],
             ensures=[("C12.details_merge.keeps_only_agreed", "merging two possible states keeps a constant only when both sides carry that same constant",
                       "r.value is Some ==> self.value == r.value && other.value == r.value")],
             safety_id="C12.details_merge.safety"),
        dict(id="local_env_merge", file="src/compiler/state.rs", impl="impl LocalEnv", name="merge",
             orig_sig="fn merge(mut self, other: Self) -> Self",
             sig="#[verifier::loop_isolation(false)]\npub fn local_env_merge(this0: LocalEnv, other: LocalEnv) -> (r: LocalEnv)",
             body_start="let mut this = this0;",
             rewrites=[RW_SELF, dict(**{"from": "for (ident, other_details) in other.bindings {", "count": 1,
                               "to": """let ghost __self0 = this.bindings.m@;
        let ghost mut __done: Set<u64> = Set::empty();
        let mut __entries = other.bindings.into_entries();
        while __entries.len() > 0
            invariant
                forall|i: int| 0 <= i < __entries@.len() ==> other.bindings.m@.dom().contains((#[trigger] __entries@[i]).0.id) && other.bindings.m@[__entries@[i].0.id] == __entries@[i].1 && !__done.contains(__entries@[i].0.id),
                forall|i: int, j: int| 0 <= i < j < __entries@.len() ==> (#[trigger] __entries@[i]).0.id != (#[trigger] __entries@[j]).0.id,
                forall|id: u64| other.bindings.m@.dom().contains(id) ==> (#[trigger] __done.contains(id)) || exists|i: int| 0 <= i < __entries@.len() && (#[trigger] __entries@[i]).0.id == id,
                forall|id: u64| !(#[trigger] __done.contains(id)) ==> (this.bindings.m@.dom().contains(id) == __self0.dom().contains(id)) && (__self0.dom().contains(id) ==> this.bindings.m@[id] == __self0[id]),
                forall|id: u64| (#[trigger] this.bindings.m@.dom().contains(id)) ==> (__self0.dom().contains(id) || other.bindings.m@.dom().contains(id)) && (this.bindings.m@[id].value is Some ==> (__self0.dom().contains(id) ==> __self0[id].value == this.bindings.m@[id].value) && (__done.contains(id) && other.bindings.m@.dom().contains(id) ==> other.bindings.m@[id].value == this.bindings.m@[id].value)),
                forall|id: u64| (#[trigger] __done.contains(id)) ==> other.bindings.m@.dom().contains(id) && this.bindings.m@.dom().contains(id),
            decreases __entries@.len(),
        {
            let ghost __before = __entries@;
            let ghost __done0 = __done;
            let (ident, other_details) = __entries.pop().unwrap();
            proof {
                __done = __done.insert(ident.id);
                assert forall|id: u64| other.bindings.m@.dom().contains(id) implies (#[trigger] __done.contains(id)) || exists|i: int| 0 <= i < __entries@.len() && (#[trigger] __entries@[i]).0.id == id by {
                    if !__done0.contains(id) && id != ident.id {
                        let i = choose|i: int| 0 <= i < __before.len() && (#[trigger] __before[i]).0.id == id;
                        assert(__before[__before.len() - 1].0.id == ident.id);
                        assert(i < __before.len() - 1);
                        assert(__entries@[i] == __before[i]);
                    }
                }
            }""",
                               "why": "consuming HashMap iteration `for (k, v) in map` = each entry exactly once in some order (into_entries + pop); loop invariant injected here because the loop is produced by this rewrite"})],
             ensures=[("C12.local_env_merge.keeps_only_agreed", "merging the variable environments of two control-flow paths keeps a constant for a variable only if every path that knows the variable carries that same constant",
                       "forall|id: u64| (#[trigger] const_of_local(r, id)) is Some ==> (binding(this0, id) is Some ==> opt_const(binding(this0, id)) == const_of_local(r, id)) && (binding(other, id) is Some ==> opt_const(binding(other, id)) == const_of_local(r, id))")],
             safety_id="C12.local_env_merge.safety"),
        dict(id="variable_resolve_constant", file="src/compiler/expression/variable.rs", impl="impl Expression for Variable", name="resolve_constant",
             orig_sig="fn resolve_constant(&self, state: &TypeState) -> Option<Value>",
             wrap=("impl Variable {", "}"), sig="pub fn resolve_constant(&self, state: &TypeState) -> (r: Option<Value>)",
             desugar=["and_then"],
             ensures=[("C12.variable.constant_is_binding", "the constant the compiler uses for a variable is exactly the constant recorded in its binding",
                       "r == const_of(*state, self.ident.id)")],
             safety_id="C12.variable_resolve_constant.safety"),
        dict(id="variable_type_info", file="src/compiler/expression/variable.rs", impl="impl Expression for Variable", name="type_info",
             orig_sig="fn type_info(&self, state: &TypeState) -> TypeInfo",
             wrap=("impl Variable {", "}"), sig="pub fn type_info(&self, state: &TypeState) -> (r: TypeInfo)",
             desugar=["map_or_else"],
             rewrites=[dict(**{"from": "TypeInfo::new(state, result)", "to": "TypeInfo::new(state.clone(), result)", "count": 1, "why": "impl Into<TypeState> for &TypeState = clone"})],
             ensures=[("C01.variable.type_is_binding", "reading a variable has exactly the type recorded in its binding (undefined when there is none) and changes no state",
                       "r.state == *state && (match binding(state.local, self.ident.id) { Some(d) => r.result == d.type_def, None => r.result == TypeDef::spec_undefined().spec_infallible() })")],
             safety_id="C01.variable_type_info.safety"),
        dict(id="insert_type_def", file="src/compiler/expression/assignment.rs", impl="impl Target", name="insert_type_def",
             orig_sig="fn insert_type_def(&self, state: &mut TypeState, new_type_def: TypeDef, value: Option<Value>)",
             wrap=("impl ATarget {", "}"), sig="pub fn insert_type_def(&self, state: &mut TypeState, new_type_def: TypeDef, value: Option<Value>)",
             rewrites=[dict(**{"from": "Some(Details { type_def, .. }) =>", "to": "Some(Details { type_def, value: _ }) =>", "why": "Verus pattern syntax for the ignored field"}),
                       dict(**{"from": "new_type_def.kind().clone()", "to": "new_type_def.kind().clone()", "optional": True, "why": "identity"})],
             ensures=[
                 ("C12.assign.root_constant", "assigning a whole variable records exactly the constant of the right-hand side for that variable",
                  "self is Internal && self->Internal_1.root ==> const_of(*final(state), self->Internal_0.id) == value"),
                 ("C12.assign.path_drops_constant", "assigning below a variable (`x.a = e`) must not record e's constant as the constant of the whole variable x",
                  "self is Internal && !self->Internal_1.root ==> const_of(*final(state), self->Internal_0.id) is None"),
                 ("C12.assign.frame", "no other variable's constant changes",
                  "forall|id: u64| !(self is Internal && self->Internal_0.id == id) ==> #[trigger] const_of(*final(state), id) == const_of(*old(state), id)"),
             ],
             safety_id="C12.insert_type_def.safety"),
        dict(id="del_type_info", file="src/stdlib/del.rs", impl="impl Expression for DelFn", name="type_info",
             orig_sig="fn type_info(&self, state: &state::TypeState) -> TypeInfo",
             wrap=("impl DelFn {", "}"), sig="pub fn type_info(&self, state: &TypeState) -> (r: TypeInfo)",
             desugar=["and_then"],
             rewrites=[dict(**{"from": "crate::compiler::type_def::Details", "to": "Details", "optional": True, "why": "module path of the prelude Details"})],
             ensures=[
                 ("C12.del.local_drops_constant", "after `del(x.path)` on a variable the compiler no longer treats x as the constant it held before",
                  "self.query.local_ident is Some ==> const_of(r.state, self.query.local_ident->Some_0.id) is None"),
                 ("C12.del.frame", "no other variable's constant changes",
                  "forall|id: u64| !(self.query.local_ident is Some && self.query.local_ident->Some_0.id == id) ==> #[trigger] const_of(r.state, id) == const_of(*state, id)"),
             ],
             safety_id="C12.del_type_info.safety"),
    ],
)

UNITS["v_op_constant"] = dict(
    prop=["C12"], tier="q", prelude=["interp.rs", "nodes.rs", "op.rs", "typestate.rs", "opconst.rs"], native_witness={"C12": ["constants"]},
    fns=[
        dict(id="is_number", file=OPRS, impl=None, name="is_number",
             orig_sig="fn is_number(value: &Value) -> bool", sig="pub fn is_number(value: &Value) -> (r: bool)",
             ensures=[("C12.is_number.spec", "is_number is true exactly for integers and floats", "r == spec_is_number(*value)")],
             safety_id="C12.is_number.safety"),
        dict(id="op_resolve_constant", file=OPRS, impl="impl Expression for Op", name="resolve_constant",
             orig_sig="fn resolve_constant(&self, state: &TypeState) -> Option<Value>",
             wrap=("impl Op {", "}"), sig="pub fn resolve_constant(&self, state: &TypeState) -> (r: Option<Value>)",
             rewrites=[RW_USE_OPCODE],
             ensures=[
                 ("C12.op.constant_is_runtime_helper", "a binary operator is folded to a constant only for + - * / on two numeric constants, and the folded value is exactly what the runtime helper (the one `resolve` calls) returns for those operands",
                  "r is Some ==> self.lhs.spec_const(*state) is Some && self.rhs.spec_const(*state) is Some && (self.opcode is Mul || self.opcode is Div || self.opcode is Add || self.opcode is Sub) && spec_is_number(self.lhs.spec_const(*state)->Some_0) && spec_is_number(self.rhs.spec_const(*state)->Some_0) && spec_arith(self.opcode, self.lhs.spec_const(*state)->Some_0, self.rhs.spec_const(*state)->Some_0) == Ok::<Value, ValueError>(r->Some_0)"),
             ],
             safety_id="C12.op_resolve_constant.safety"),
        dict(id="op_resolve_arith", file=OPRS, impl="impl Expression for Op", name="resolve", orig_sig=SIG_RESOLVE,
             wrap=("impl Op {", "}"), sig=VSIG,
             desugar=["or_else", "map_err", "try_or"],
             rewrites=[RW_USE_VALUE, RW_USE_OPCODE, RW_FALSE_INTO, RW_OK_INTO],
             ensures=[
                 ("C12.op.runtime_uses_same_helper", "at runtime + - * / evaluate both operands and return exactly that helper's result on their values (so a folded constant equals the runtime value whenever the operand constants equal the operand values)",
                  "(self.opcode is Mul || self.opcode is Div || self.opcode is Add || self.opcode is Sub) && added(%s, %s) == 2 && outcome(nth(%s, %s, 0)) is Ok && outcome(nth(%s, %s, 1)) is Ok && spec_arith(self.opcode, outcome(nth(%s, %s, 0))->Ok_0, outcome(nth(%s, %s, 1))->Ok_0) is Ok ==> r == Ok::<Value, ExpressionError>(spec_arith(self.opcode, outcome(nth(%s, %s, 0))->Ok_0, outcome(nth(%s, %s, 1))->Ok_0)->Ok_0)" % ((PRE, POST) * 7)),
             ],
             safety_id="C12.op_resolve_arith.safety"),
    ],
)

# ------------------------------------------------------------------------------------------------
UNITS["v_reported_paths"] = dict(
    prop=["C16"], tier="q", prelude=["compiler_q.rs"], native_witness={"C16": ["reported_paths"]},
    fns=[
        dict(id="compile_query", file="src/compiler/compiler.rs", impl="impl<'a> Compiler<'a>", name="compile_query",
             orig_sig="fn compile_query(&mut self, node: Node<ast::Query>, state: &mut TypeState) -> Option<Query>",
             wrap=("impl Compiler {", "}"), sig="pub fn compile_query(&mut self, node: Node<AstQuery>, state: &mut TypeState) -> (r: Option<Query>)",
             rewrites=[dict(**{"from": "ast::Query {", "to": "AstQuery {", "why": "prelude name of ast::Query"})],
             ensures=[
                 ("C16.compile_query.reports_external", "every query on the event or metadata that the compiler produces is reported, with exactly the prefix and path the query will read at runtime",
                  "r is Some && r->Some_0.target is External ==> final(self).external_queries@.len() > old(self).external_queries@.len() && final(self).external_queries@.last() == (OwnedTargetPath { prefix: r->Some_0.target->External_0, path: r->Some_0.path })"),
                 ("C16.compile_query.monotone", "no previously reported query or assignment is dropped",
                  "old(self).external_queries@.len() <= final(self).external_queries@.len() && (forall|i: int| 0 <= i < old(self).external_queries@.len() ==> final(self).external_queries@[i] == old(self).external_queries@[i]) && final(self).external_assignments == old(self).external_assignments"),
             ],
             safety_id="C16.compile_query.safety"),
        dict(id="assignment_targets", file="src/compiler/expression/assignment.rs", impl="impl Assignment", name="targets",
             orig_sig="fn targets(&self) -> Vec<Target>",
             wrap=("impl Assignment {", "}"), sig="pub fn targets(&self) -> (r: Vec<ATarget>)",
             rewrites=[dict(**{"from": "Variant::Single", "to": "AVariant::Single", "why": "prelude name"}),
                       dict(**{"from": "Variant::Infallible", "to": "AVariant::Infallible", "why": "prelude name"})],
             ensures=[
                 ("C16.targets.complete", "targets() lists every target the assignment writes at runtime: the single target, or both the ok and the err target",
                  "(match self.variant { AVariant::Single { target, expr } => r@ == seq![target], AVariant::Infallible { ok, err, expr, default } => r@ == seq![ok, err] })"),
             ],
             safety_id="C16.targets.safety"),
    ],
)

# ------------------------------------------------------------------------------------------------
UNITS["v_assign_types"] = dict(
    prop=["C08", "C12", "C01"], tier="q", prelude=["assigntypes.rs"], native_witness={"C08": ["assign_typing"], "C01": ["assign_typing"]},
    fns=[dict(
        id="variant_type_info", file=EXPR + "assignment.rs", impl="impl<U> Expression for Variant<Target, U>", name="type_info",
        orig_sig="fn type_info(&self, state: &TypeState) -> TypeInfo",
        wrap=("impl Variant {", "}"), sig="pub fn type_info(&self, state: &TypeState) -> (r: TypeInfo)",
        rewrites=[dict(**{"from": "TypeDef::from(", "to": "TypeDef::from_kind(", "optional": True, "why": "From<Kind> for TypeDef"}),
                  dict(**{"from": "Kind::bytes().or_null()", "to": "kind_bytes_or_null()", "optional": True, "why": "the bytes|null kind is opaque"})],
        ensures=[
            ("C08.assign.default_in_ok_type", "`ok, err = e`: the type recorded for ok admits the stored default value (it is the type of e united with the default's kind), so the default written on failure belongs to ok's reported type",
             "self is Infallible ==> r.state.writes@.len() >= 2 && r.state.writes@[r.state.writes@.len() - 2].target == self->Infallible_ok.id@ && members(r.state.writes@[r.state.writes@.len() - 2].type_def).contains(value_member(self->Infallible_default))"),
            ("C08.assign.ok_type_covers_expr", "the type recorded for ok also admits every value e itself can produce",
             "self is Infallible ==> members(self->Infallible_expr.spec_type(*state)).subset_of(members(r.state.writes@[r.state.writes@.len() - 2].type_def))"),
            ("C08.assign.err_target_recorded", "err is recorded last, without a constant",
             "self is Infallible ==> r.state.writes@.last().target == self->Infallible_err.id@ && r.state.writes@.last().constant is None"),
            ("C01.assign.records_rhs_type", "`target = e` records for the target exactly the kind the compiler derived for e, and the assignment expression itself has that kind",
             "self is Single ==> r.state.writes@.len() >= 1 && members(r.state.writes@.last().type_def) == members(self->Single_expr.spec_type(*state)) && members(r.result) == members(self->Single_expr.spec_type(*state))"),
            ("C01.assign.infallible_result_kind", "`ok, err = e` evaluates to e's value or the error message: its kind admits every value of e (and bytes)",
             "self is Infallible ==> members(self->Infallible_expr.spec_type(*state)).subset_of(members(r.result))"),
            ("C12.assign.records_rhs_constant", "`target = e` records exactly the constant the compiler derives for e (in the state after e's own effects) and e's type",
             "self is Single ==> r.state.writes@.len() >= 1 && r.state.writes@.last().target == self->Single_target.id@ && members(r.state.writes@.last().type_def) == members(self->Single_expr.spec_type(*state))"),
        ],
        safety_id="C08.variant_type_info.safety",
    )],
)

# ------------------------------------------------------------------------------------------------
def ty_clause(opset, text, oid):
    return (oid, text,
            "(%s) ==> forall|a: int, b: int| #![trigger op_table(self.opcode, a, b)] self.lhs.spec_type(*state).m@.contains(a) && self.rhs.spec_type(self.lhs.spec_state(*state)).m@.contains(b) ==> (match op_table(self.opcode, a, b) { TOut::Ok(m) => r.result.m@.contains(m), TOut::OkOrNan(m) => r.result.m@.contains(m), TOut::Err => r.result.fall@ })" % opset)


UNITS["v_op_types"] = dict(
    prop=["C01", "C02", "C12"], tier="q", prelude=["optypes.rs"], native_witness={"C01": ["op_typing"], "C02": ["op_typing"], "C12": ["op_typing"]},
    fns=[dict(
        id="op_type_info", file=OPRS, impl="impl Expression for Op", name="type_info",
        orig_sig="fn type_info(&self, state: &TypeState) -> TypeInfo",
        wrap=("impl Op {", "}"), sig="pub fn type_info(&self, state: &TypeState) -> (r: TypeInfo)",
        rewrites=[
            dict(**{"from": "use crate::value::Kind as K;", "to": "", "count": 1, "why": "K is the prelude kind constructor type"}),
            RW_USE_OPCODE,
            dict(**{"from": r"let maybe_rhs = \|state: &mut TypeState\| \{\s*let rhs_info = self\.rhs\.type_info\(state\);\s*\*state = state\.clone\(\)\.merge\(rhs_info\.state\);\s*rhs_info\.result\s*\};", "regex": True, "count": 1,
                    "to": "", "why": "closure taking &mut TypeState -> prelude fn maybe_rhs(&self.rhs, state) with the closure's contract (result = the rhs type)"}),
            dict(**{"from": "maybe_rhs(&mut state)", "to": "maybe_rhs(&self.rhs, &mut state)", "why": "see above"}),
            dict(**{"from": "lhs_value == Some(Value::Boolean(false))", "to": "opt_value_eq_bool(&lhs_value, false)", "why": "derived PartialEq on Option<Value>"}),
            dict(**{"from": "lhs_value == Some(Value::Boolean(true))", "to": "opt_value_eq_bool(&lhs_value, true)", "why": "derived PartialEq on Option<Value>"}),
        ],
        ensures=[
            ty_clause("self.opcode is Add || self.opcode is Sub || self.opcode is Mul", "for + - *: every result the runtime helper can produce for operands of the operands' kinds belongs to the reported kind, and if the helper can fail on some such operands (other than the NaN case) the expression is typed fallible", "C01.op.arith_sound"),
            ty_clause("self.opcode is Eq || self.opcode is Ne || self.opcode is Gt || self.opcode is Ge || self.opcode is Lt || self.opcode is Le", "for comparisons: the result kind contains boolean and incomparable operand kinds make the expression fallible", "C01.op.compare_sound"),
            ("C02.op.infallible_means_helper_cannot_fail", "an eager operator typed infallible: for all operands of the operand kinds the runtime helper cannot return a type error (only the documented NaN case)",
             "(self.opcode is Add || self.opcode is Sub || self.opcode is Mul || self.opcode is Eq || self.opcode is Ne || self.opcode is Gt || self.opcode is Ge || self.opcode is Lt || self.opcode is Le) && !r.result.fall@ ==> forall|a: int, b: int| #![trigger op_table(self.opcode, a, b)] self.lhs.spec_type(*state).m@.contains(a) && self.rhs.spec_type(self.lhs.spec_state(*state)).m@.contains(b) ==> !(op_table(self.opcode, a, b) is Err)"),
            ("C02.op.operand_fallibility", "an eager operator whose operand is fallible is fallible",
             "(self.opcode is Add || self.opcode is Sub || self.opcode is Mul || self.opcode is Eq || self.opcode is Ne || self.opcode is Gt || self.opcode is Ge || self.opcode is Lt || self.opcode is Le) && (self.lhs.spec_type(*state).fall@ || self.rhs.spec_type(self.lhs.spec_state(*state)).fall@) ==> r.result.fall@"),
            ("C02.op.div_infallible_only_safe", "`/` is typed infallible only when the divisor is a compile-time constant that is a non-zero integer or a normal float and the dividend can only be an integer or a float; its kind is float",
             "self.opcode is Div ==> r.result.m@ == set![FLOAT] && (!r.result.fall@ ==> (self.lhs.spec_type(*state).m@ == set![INTEGER] || self.lhs.spec_type(*state).m@ == set![FLOAT]) && (match self.rhs.spec_const(self.lhs.spec_state(*state)) { Some(Value::Integer(v)) => v != 0, Some(Value::Float(f)) => f.spec_normal(), _ => false }))"),
            ("C12.op.div_constant_after_lhs", "the divisor constant that makes `/` infallible is the constant of the right operand in the state *after* the left operand's effects (the left operand runs first and may reassign what the right one reads)",
             "(self.opcode is Div && !r.result.fall@) ==> (match self.rhs.spec_const(self.lhs.spec_state(*state)) { Some(Value::Integer(v)) => v != 0, Some(Value::Float(f)) => f.spec_normal(), _ => false })"),
            ("C12.op.short_circuit_constant_before_lhs", "the left-operand constant that lets `||` / `&&` drop an operand is the left operand's constant in the state the operator starts in",
             "(self.opcode is Or && self.lhs.spec_type(*state).m@.contains(BOOLEAN) && !(self.lhs.spec_const(*state) == Some(Value::Boolean(true)))) ==> self.rhs.spec_type(self.lhs.spec_state(*state)).m@.subset_of(r.result.m@)"),
            ("C01.op.err_union", "`a ?? b` admits every value of a and of b; it is fallible only if both are",
             "self.opcode is Err ==> self.lhs.spec_type(*state).m@.union(self.rhs.spec_type(self.lhs.spec_state(*state)).m@).subset_of(r.result.m@) && r.result.fall@ == (self.lhs.spec_type(*state).fall@ && self.rhs.spec_type(self.lhs.spec_state(*state)).fall@)"),
            ("C01.op.or_sound", "`a || b` admits every non-null value of a (when a can be truthy) and every value of b (when a can be null/false)",
             "self.opcode is Or ==> ((self.lhs.spec_type(*state).m@.contains(NULL) || self.lhs.spec_type(*state).m@.contains(BOOLEAN)) && !(self.lhs.spec_const(*state) == Some(Value::Boolean(true))) ==> self.rhs.spec_type(self.lhs.spec_state(*state)).m@.subset_of(r.result.m@)) && (!(self.lhs.spec_type(*state).m@ == set![NULL]) && !(self.lhs.spec_const(*state) == Some(Value::Boolean(false))) ==> self.lhs.spec_type(*state).m@.remove(NULL).subset_of(r.result.m@))"),
            ("C01.op.and_boolean", "`a && b` is boolean", "self.opcode is And ==> r.result.m@ == set![BOOLEAN]"),
            ("C02.op.short_circuit_lhs_fallibility", "`a && b` and `a || b` always evaluate a: they are typed fallible whenever a is",
             "(self.opcode is And || self.opcode is Or) && self.lhs.spec_type(*state).fall@ ==> r.result.fall@"),
            ("C02.op.and_infallible_only_safe", "`a && b` is typed infallible only if a can only be null or boolean and, unless a is known to be null/false, b can only be null or boolean and cannot fail (otherwise the runtime helper try_and returns a type error)",
             "(self.opcode is And && !r.result.fall@) ==> self.lhs.spec_type(*state).m@.subset_of(set![NULL, BOOLEAN]) && ((!(self.lhs.spec_type(*state).m@ == set![NULL]) && !(self.lhs.spec_const(*state) == Some(Value::Boolean(false)))) ==> (self.rhs.spec_type(self.lhs.spec_state(*state)).m@.subset_of(set![NULL, BOOLEAN]) && !self.rhs.spec_type(self.lhs.spec_state(*state)).fall@))"),
            ("C02.op.or_infallible_only_safe", "`a || b` is typed infallible only if b cannot fail whenever b may be evaluated (a may be null or false)",
             "(self.opcode is Or && !r.result.fall@) ==> (((self.lhs.spec_type(*state).m@.contains(NULL) || self.lhs.spec_type(*state).m@.contains(BOOLEAN)) && !(self.lhs.spec_const(*state) == Some(Value::Boolean(true)))) ==> !self.rhs.spec_type(self.lhs.spec_state(*state)).fall@)"),
        ],
        safety_id="C01.op_type_info.safety", safety_text="`unreachable!(...)` arms are unreachable",
    )],
)

UNITS["v_control_types"] = dict(
    prop=["C01", "C02"], tier="q", prelude=["optypes.rs"], native_witness={"C01": ["op_typing"], "C02": ["op_typing"]},
    fns=[
        dict(id="if_type_info", file=EXPR + "if_statement.rs", impl="impl Expression for IfStatement", name="type_info",
             orig_sig="fn type_info(&self, state: &TypeState) -> TypeInfo",
             wrap=("impl IfStatement {", "}"), sig="pub fn type_info(&self, state: &TypeState) -> (r: TypeInfo)",
             rewrites=[dict(**{"from": r"result\s*\.returns_mut\(\)\s*\.merge_keep\(predicate_info\.returns\(\)\.clone\(\), false\);", "to": "result.returns_merge_keep(predicate_info.returns().clone());", "regex": True, "count": 2, "why": "returns_mut().merge_keep(..) composed: only the returns component changes"})],
             ensures=[
                 ("C01.if.with_else", "`if/else` admits every value of either branch and is fallible iff a branch is",
                  "self.else_block is Some ==> ({ let s1 = self.predicate.inner.spec_state(*state); let a = self.if_block.spec_type(s1); let b = self.else_block->Some_0.spec_type(s1); a.m@.union(b.m@).subset_of(r.result.m@) && r.result.fall@ == (a.fall@ || b.fall@) })"),
                 ("C01.if.without_else", "`if` without else admits every value of the branch and null (the value when the predicate is false)",
                  "self.else_block is None ==> ({ let s1 = self.predicate.inner.spec_state(*state); let a = self.if_block.spec_type(s1); a.m@.subset_of(r.result.m@) && r.result.m@.contains(NULL) && r.result.fall@ == a.fall@ })"),
                 ("C02.if.infallible_means_branches_infallible", "an `if` typed infallible has only infallible branches (the predicate is checked to be an infallible boolean when the node is built)",
                  "!r.result.fall@ ==> ({ let s1 = self.predicate.inner.spec_state(*state); !self.if_block.spec_type(s1).fall@ && (self.else_block is Some ==> !self.else_block->Some_0.spec_type(s1).fall@) })"),
                 ("C01.if.returns", "a `return` inside the predicate or a branch is part of the reported return type",
                  "({ let s1 = self.predicate.inner.spec_state(*state); self.predicate.inner.spec_type(*state).spec_returns().subset_of(r.result.spec_returns()) })"),
             ],
             safety_id="C01.if_type_info.safety"),
        dict(id="not_type_info", file=EXPR + "not.rs", impl="impl Expression for Not", name="type_info",
             orig_sig="fn type_info(&self, state: &TypeState) -> TypeInfo",
             wrap=("impl Not {", "}"), sig="pub fn type_info(&self, state: &TypeState) -> (r: TypeInfo)",
             ensures=[("C01.not.boolean", "`!e` is boolean, fallible exactly when e is, and keeps e's return type",
                       "r.result.m@ == set![BOOLEAN] && r.result.fall@ == self.inner.spec_type(*state).fall@ && r.result.spec_returns() == self.inner.spec_type(*state).spec_returns()")],
             safety_id="C01.not_type_info.safety"),
        dict(id="return_type_info", file=EXPR + "return.rs", impl="impl Expression for Return", name="type_info",
             orig_sig="fn type_info(&self, state: &TypeState) -> TypeInfo",
             wrap=("impl Return {", "}"), sig="pub fn type_info(&self, state: &TypeState) -> (r: TypeInfo)",
             rewrites=[dict(**{"from": "TypeInfo::new(\n            state,", "to": "TypeInfo::new(\n            state.clone(),", "count": 1, "why": "impl Into<TypeState> for &TypeState = clone"})],
             ensures=[("C01.return.return_type_is_value_kind", "`return e` never yields a value itself and reports e's kind as its return type (the kind of the value the program then ends with)",
                       "r.result.spec_never() && r.result.m@ == Set::<int>::empty() && r.result.spec_returns() == self.expr.spec_type(*state).m@")],
             safety_id="C01.return_type_info.safety"),
        dict(id="not_type_info_c02", file=EXPR + "not.rs", impl="impl Expression for Not", name="type_info",
             orig_sig="fn type_info(&self, state: &TypeState) -> TypeInfo",
             wrap=("impl Not {", "}"), sig="pub fn type_info_c02(&self, state: &TypeState) -> (r: TypeInfo)",
             ensures=[("C02.not.infallible_means_operand_infallible", "`!e` typed infallible has an infallible operand", "!r.result.fall@ ==> !self.inner.spec_type(*state).fall@")],
             safety_id="C02.not_type_info.safety"),
    ],
)

# ------------------------------------------------------------------------------------------------
UNITS["v_crud_get"] = dict(
    prop=["C18"], tier="q", prelude=["crudpath.rs"], native_witness={"C18": ["crud_vec", "crud_paths"]},
    fns=[dict(
        id="crud_get", file="src/value/value/crud/get.rs", impl=None, name="get",
        orig_sig="fn get<'a>( mut value: &Value, mut path_iter: impl Iterator<Item = BorrowedSegment<'a>>, ) -> Option<&Value>",
        sig="#[verifier::loop_isolation(false)]\npub fn get<'a>(value0: &'a Value, path_iter0: PathIter) -> (r: Option<&'a Value>)",
        requires=["path_iter0.pos <= path_iter0.segs@.len()"],
        body_start="let mut value = value0; let mut path_iter = path_iter0;",
        rewrites=[dict(**{"from": "BorrowedSegment::", "to": "Seg::", "why": "prelude name of BorrowedSegment"}),
                  dict(**{"from": "array.get_value(&index)", "to": "vec_get_value(array, &index)", "count": 1, "why": "trait method ValueCollection::get_value on Vec<Value> = the function verified in v_crud_vec"})],
        loops={"_count": 1, 0: dict(spec="invariant path_iter.pos <= path_iter.segs@.len(), spec_path_get(*value, path_iter.rest()) == spec_path_get(*value0, path_iter0.rest()),\n decreases path_iter.segs@.len() - path_iter.pos,")},
        ensures=[("C18.get.path_semantics", "reading a path descends through objects by field and through arrays by (front/back) index, returns the value reached when the path is exhausted, and finds nothing as soon as it has to go through a non-container or a missing key/index",
                  "opt_val(r) == spec_path_get(*value0, path_iter0.rest())")],
        safety_id="C18.get.safety", safety_text="the path walk terminates (decreases the remaining path)",
    )],
)

UNITS["v_block_types"] = dict(
    prop=["C01", "C02"], tier="q", prelude=["optypes.rs"],
    fns=[dict(
        id="block_type_info", file=EXPR + "block.rs", impl="impl Expression for Block", name="type_info",
        orig_sig="fn type_info(&self, state: &TypeState) -> TypeInfo",
        wrap=("impl Block {", "}"), sig="#[verifier::loop_isolation(false)]\npub fn type_info(&self, state: &TypeStateB) -> (r: TypeInfoB)",
        rewrites=[dict(**{"from": "for expr in &self.inner {", "to": "for expr in it: self.inner.iter() {", "count": 1, "why": "Verus for-loop syntax with a named iterator"}),
                  dict(**{"from": "let mut returns = Kind::never();", "to": "let mut returns = KindR::never();", "count": 1, "why": "prelude name of the returns kind"}),
                  dict(**{"from": "TypeInfo::new(", "to": "TypeInfoB::new(", "count": 1, "why": "prelude name"})],
        loops={"_count": 1, 0: dict(spec="invariant state == state_before(self.inner@, *old_state, it.index@ as int),\n    it.index@ > 0 ==> result == type_of(self.inner@, *old_state, it.index@ - 1),\n    it.index@ == 0 ==> result.m@ == set![NULL],\n    after_never_expression == !reachable(self.inner@, *old_state, it.index@ as int),\n    forall|j: int| 0 <= j < it.index@ && reachable(self.inner@, *old_state, j) && (#[trigger] type_of(self.inner@, *old_state, j)).fall@ ==> fallible,\n    forall|j: int| 0 <= j < it.index@ ==> (#[trigger] type_of(self.inner@, *old_state, j)).spec_returns().subset_of(returns.m@),")},
        body_start="let ghost old_state = state;",
        ensures=[
            ("C01.block.kind_is_last", "a non-empty block has the kind of its last expression (an empty one is null)",
             "self.inner@.len() > 0 ==> r.result.m@ == type_of(self.inner@, *state, self.inner@.len() - 1).m@"),
            ("C02.block.fallible_if_any_reachable_fallible", "a block is fallible as soon as one of its reachable expressions (none before it is typed never) is fallible",
             "forall|j: int| 0 <= j < self.inner@.len() && reachable(self.inner@, *state, j) && (#[trigger] type_of(self.inner@, *state, j)).fall@ ==> r.result.fall@"),
            ("C01.block.returns_all", "every `return` type of an expression in the block is part of the block's return type",
             "forall|j: int| 0 <= j < self.inner@.len() ==> (#[trigger] type_of(self.inner@, *state, j)).spec_returns().subset_of(r.result.spec_returns())"),
        ],
        safety_id="C01.block_type_info.safety",
    )],
)

# ------------------------------------------------------------------------------------------------
ARITH = "src/compiler/value/arithmetic.rs"
ARITH_IMPL = "impl VrlValueArithmetic for Value"
UNITS["v_str_arith"] = dict(
    prop=["C11"], tier="q", prelude=["strarith.rs"], native_witness={"C11": ["string_arith"]},
    fns=[
        dict(id="try_mul", file=ARITH, impl=ARITH_IMPL, name="try_mul",
             orig_sig="fn try_mul(self, rhs: Self) -> Result<Self, ValueError>",
             sig="pub fn try_mul(this: Value, rhs: Value) -> (r: Result<Value, ValueError>)",
             rewrites=[RW_SELF,
                       dict(**{"from": "let as_usize = |num| if num < 0 { 0 } else { num as usize };", "to": "let as_usize = |num: i64| -> (o: usize) ensures o == (if num < 0 { 0 } else { num as usize }) { if num < 0 { 0 } else { num as usize } };", "count": 1, "why": "closure parameter/return types made explicit, with its own body as its contract"}),
                       dict(**{"from": "float_result(lhs as f64 * rhs.into_inner())?", "to": "float_mul_if(lhs, rhs)?", "count": 1, "why": "float arm opaque (decided bit-precisely by the C11 Kani units)"}),
                       dict(**{"from": "float_result(lhs.into_inner() * rhs as f64)?", "to": "float_mul_fi(lhs, rhs)?", "count": 1, "why": "float arm opaque"}),
                       dict(**{"from": "float_result(lhs.into_inner() * rhs.into_inner())?", "to": "float_mul_ff(lhs, rhs)?", "count": 1, "why": "float arm opaque"}),
                       dict(**{"from": "i64::wrapping_mul(lhs, rhs).into()", "to": "wrapping_mul_value(lhs, rhs)", "count": 1, "why": "integer arm opaque (C11 Kani)"}),
                       dict(**{"from": r"(Bytes::from\([^\n]*\))\.into\(\)", "to": r"\1.into_value()", "regex": True, "count": 2, "why": "From<Bytes> for Value"})],
             ensures=[("C11.bytes.mul_repeat", "`string * n` and `n * string` repeat the string max(n, 0) times (every string, every i64)",
                       "(match (this, rhs) { (Value::Bytes(s), Value::Integer(n)) => r is Ok && r->Ok_0 is Bytes && r->Ok_0->Bytes_0.b@ == spec_repeat(s.b@, (if n < 0 { 0 } else { n as nat })), (Value::Integer(n), Value::Bytes(s)) => r is Ok && r->Ok_0 is Bytes && r->Ok_0->Bytes_0.b@ == spec_repeat(s.b@, (if n < 0 { 0 } else { n as nat })), _ => true })")],
             safety_id="C11.try_mul.safety"),
        dict(id="try_add", file=ARITH, impl=ARITH_IMPL, name="try_add",
             orig_sig="fn try_add(self, rhs: Self) -> Result<Self, ValueError>",
             sig="pub fn try_add(this: Value, rhs: Value) -> (r: Result<Value, ValueError>)",
             requires=["(this is Bytes && rhs is Bytes) ==> this->Bytes_0.b@.len() + rhs->Bytes_0.b@.len() <= usize::MAX"],
             rewrites=[RW_SELF,
                       dict(**{"from": "float_result(lhs as f64 + rhs.into_inner())?", "to": "float_add_if(lhs, rhs)?", "count": 1, "why": "float arm opaque (C11 Kani)"}),
                       dict(**{"from": "float_result(lhs.into_inner() + rhs as f64)?", "to": "float_add_fi(lhs, rhs)?", "count": 1, "why": "float arm opaque"}),
                       dict(**{"from": "float_result(lhs.into_inner() + rhs.into_inner())?", "to": "float_add_ff(lhs, rhs)?", "count": 1, "why": "float arm opaque"}),
                       dict(**{"from": "i64::wrapping_add(lhs, rhs).into()", "to": "wrapping_add_value(lhs, rhs)", "count": 1, "why": "integer arm opaque (C11 Kani)"}),
                       dict(**{"from": "value.freeze().into()", "to": "value.freeze().into_value()", "count": 1, "why": "From<Bytes> for Value"})],
             ensures=[("C11.bytes.add_concat", "string + string concatenates; null acts as the empty string on either side of a string (every pair of strings)",
                       "(match (this, rhs) { (Value::Bytes(a), Value::Bytes(b)) => r is Ok && r->Ok_0 is Bytes && r->Ok_0->Bytes_0.b@ == a.b@ + b.b@, (Value::Bytes(a), Value::Null) => r == Ok::<Value, ValueError>(Value::Bytes(a)), (Value::Null, Value::Bytes(b)) => r == Ok::<Value, ValueError>(Value::Bytes(b)), _ => true })"),
                      ("C11.bytes.add_type_error", "adding a string to a number, or null to anything but a string, is a type error, never a wrong value",
                       "(match (this, rhs) { (Value::Bytes(_), Value::Integer(_)) | (Value::Bytes(_), Value::Float(_)) | (Value::Integer(_), Value::Bytes(_)) | (Value::Float(_), Value::Bytes(_)) | (Value::Null, Value::Null) | (Value::Null, Value::Integer(_)) | (Value::Integer(_), Value::Null) => r is Err && r->Err_0 is Add, _ => true })")],
             safety_id="C11.try_add.safety", safety_text="the capacity hint `lhs.len() + rhs.len()` cannot overflow under the stated precondition (the two strings fit in memory together)"),
    ],
)


# ------------------------------------------------------------------------------------------------
CMP_OPS = [(">=", 1, "bytes_ge", "ts_ge"), ("<=", 3, "bytes_le", "ts_le"), (">", 0, "bytes_gt", "ts_gt"), ("<", 2, "bytes_lt_x", "ts_lt_x")]


def cmp_rewrites():
    """Operator-generic: whichever of the four operators a helper uses is carried over faithfully
    (so a helper that uses the wrong operator is extracted as such and fails its contract)."""
    rw = [RW_SELF]
    for sym, code, bfn, tfn in CMP_OPS:
        e = re.escape(sym)
        rw += [
            dict(**{"from": r"\(Value::Float\(lhs\), Value::Float\(rhs\)\) => \(lhs %s rhs\)\.into\(\)," % e, "regex": True, "optional": True, "to": "(Value::Float(lhs), Value::Float(rhs)) => Value::Boolean(float_cmp_ff(%d, lhs, rhs))," % code, "why": "NotNan<f64> comparison: opaque (C10 Kani)"}),
            dict(**{"from": r"\(+lhs as f64\)? %s rhs\.into_inner\(\)\)\.into\(\)" % e, "regex": True, "optional": True, "to": "Value::Boolean(float_cmp_if(%d, lhs, rhs))" % code, "why": "mixed int/float comparison: opaque (C10 Kani)"}),
            dict(**{"from": r"\(lhs\.into_inner\(\) %s rhs as f64\)\.into\(\)" % e, "regex": True, "optional": True, "to": "Value::Boolean(float_cmp_fi(%d, lhs, rhs))" % code, "why": "mixed float/int comparison: opaque (C10 Kani)"}),
            dict(**{"from": r"\(lhs %s rhs\.try_bytes\(\)\?\)\.into\(\)" % e, "regex": True, "optional": True, "to": "Value::Boolean(%s(&lhs, &rhs.try_bytes()?))" % bfn, "why": "std `%s` on Bytes by its Ord definition" % sym}),
            dict(**{"from": r"\(lhs %s rhs\.try_timestamp\(\)\?\)\.into\(\)" % e, "regex": True, "optional": True, "to": "Value::Boolean(%s(&lhs, &rhs.try_timestamp()?))" % tfn, "why": "chrono `%s` on DateTime<Utc> by its Ord definition" % sym}),
            dict(**{"from": r"\(lhs %s rhs\)\.into\(\)" % e, "regex": True, "optional": True, "to": "Value::Boolean(lhs %s rhs)" % sym, "why": "From<bool> for Value"}),
        ]
    return rw


def cmp_fn(name, sym, code, bfn, tfn, int_expr, bytes_spec, ts_spec):
    return dict(id=name, file=ARITH, impl=ARITH_IMPL, name=name,
        orig_sig="fn %s(self, rhs: Self) -> Result<Self, ValueError>" % name,
        sig="pub fn %s(this: Value, rhs: Value) -> (r: Result<Value, ValueError>)" % name,
        rewrites=cmp_rewrites(),
        ensures=[("C10.%s.integers" % name, "`%s` on two integers is the integer comparison" % sym,
                  "(match (this, rhs) { (Value::Integer(a), Value::Integer(b)) => r == Ok::<Value, ValueError>(Value::Boolean(%s)), _ => true })" % int_expr),
                 ("C10.%s.strings" % name, "`%s` on two strings is the bytewise (lexicographic) comparison; a string against a non-string is a type error" % sym,
                  "(match (this, rhs) { (Value::Bytes(a), Value::Bytes(b)) => r == Ok::<Value, ValueError>(Value::Boolean(%s)), (Value::Bytes(a), _) => r is Err, _ => true })" % bytes_spec),
                 ("C10.%s.timestamps" % name, "`%s` on two timestamps is the chronological comparison; a timestamp against a non-timestamp is a type error" % sym,
                  "(match (this, rhs) { (Value::Timestamp(a), Value::Timestamp(b)) => r == Ok::<Value, ValueError>(Value::Boolean(%s)), (Value::Timestamp(a), _) => r is Err, _ => true })" % ts_spec)],
        safety_id="C10.%s.safety" % name)


UNITS["v_cmp"] = dict(
    prop=["C10"], tier="q", prelude=["cmp.rs"],
    extra='''
// consistency of the four operators over the std orders the helpers delegate to (C10: exactly one
// of <, ==, > ; <= and >= agree with them)
proof fn lemma_bytes_trichotomy(a: Seq<u8>, b: Seq<u8>)
    ensures (bytes_lt(a, b) as int) + ((a =~= b) as int) + (bytes_lt(b, a) as int) == 1,
    decreases a.len()
{
    if a.len() == 0 || b.len() == 0 { } else if a[0] != b[0] { } else {
        lemma_bytes_trichotomy(a.drop_first(), b.drop_first());
        if a.drop_first() =~= b.drop_first() { assert(a =~= seq![a[0]] + a.drop_first()); assert(b =~= seq![b[0]] + b.drop_first()); }
    }
}
proof fn lemma_ts_trichotomy(a: Ts, b: Ts)
    ensures (ts_lt(a, b) as int) + (ts_eq(a, b) as int) + (ts_lt(b, a) as int) == 1,
{ }
''',
    fns=[cmp_fn("try_gt", ">", 0, "bytes_gt", "ts_gt", "a > b", "bytes_lt(b.b@, a.b@)", "ts_lt(b, a)"),
         cmp_fn("try_ge", ">=", 1, "bytes_ge", "ts_ge", "a >= b", "!bytes_lt(a.b@, b.b@)", "!ts_lt(a, b)"),
         cmp_fn("try_lt", "<", 2, "bytes_lt_x", "ts_lt_x", "a < b", "bytes_lt(a.b@, b.b@)", "ts_lt(a, b)"),
         cmp_fn("try_le", "<=", 3, "bytes_le", "ts_le", "a <= b", "!bytes_lt(b.b@, a.b@)", "!ts_lt(b, a)")],
)


# ------------------------------------------------------------------------------------------------
# C28: collection laws reachable by contracts: slice (positional indexing), length, merge
RW_EXPECTED = dict(**{"from": r"value => Err\(ValueError::Expected \{.*?\}\s*\.into\(\)\),", "regex": True, "count": 1,
                      "to": "value => Err(err_expected(value)),", "why": "type-error construction (Kind bit-sets, From<ValueError>) opaque"})
MERGE_LOOP = """let ghost __m0 = map1.m@;
    let ghost mut __done: Set<u64> = Set::empty();
    let mut __entries = map2.ref_entries();
    while __entries.len() > 0
        invariant
            forall|i: int| 0 <= i < __entries@.len() ==> map2.m@.dom().contains((#[trigger] __entries@[i]).0.id) && map2.m@[__entries@[i].0.id] == *__entries@[i].1 && !__done.contains(__entries@[i].0.id),
            forall|i: int, j: int| 0 <= i < j < __entries@.len() ==> (#[trigger] __entries@[i]).0.id != (#[trigger] __entries@[j]).0.id,
            forall|id: u64| map2.m@.dom().contains(id) ==> (#[trigger] __done.contains(id)) || exists|i: int| 0 <= i < __entries@.len() && (#[trigger] __entries@[i]).0.id == id,
            forall|id: u64| (#[trigger] __done.contains(id)) ==> map2.m@.dom().contains(id),
            forall|id: u64| (#[trigger] map1.m@.dom().contains(id)) == (__m0.dom().contains(id) || __done.contains(id)),
            forall|id: u64| (#[trigger] map1.m@.dom().contains(id)) && !__done.contains(id) ==> map1.m@[id] == __m0[id],
            forall|id: u64| (#[trigger] __done.contains(id)) ==> merged_at(map1.m@, __m0, map2.m@, deep, id),
        decreases __entries@.len(),
    {
        let ghost __before = __entries@;
        let ghost __done0 = __done;
        let ghost __m1 = map1.m@;
        let (key2, value2) = __entries.pop().unwrap();
        proof {
            __done = __done.insert(key2.id);
            assert forall|id: u64| map2.m@.dom().contains(id) implies (#[trigger] __done.contains(id)) || exists|i: int| 0 <= i < __entries@.len() && (#[trigger] __entries@[i]).0.id == id by {
                if !__done0.contains(id) && id != key2.id {
                    let i = choose|i: int| 0 <= i < __before.len() && (#[trigger] __before[i]).0.id == id;
                    assert(__before[__before.len() - 1].0.id == key2.id);
                    assert(i < __before.len() - 1);
                    assert(__entries@[i] == __before[i]);
                }
            }
            assert(__before[__before.len() - 1].0.id == key2.id);
            assert(!__done0.contains(key2.id));
        }"""
MERGE_STEP = """
        proof {
            // hint: the key just processed satisfies the law at every depth; every other key is untouched
            if __m1.dom().contains(key2.id) { assert(__m1[key2.id] == __m0[key2.id]); }
            assert forall|d: nat| merged_key(map1.m@, __m0, map2.m@, deep, d, key2.id) by {
                if d > 0 && deep && __m0.dom().contains(key2.id) && __m0[key2.id] is Object && map2.m@[key2.id] is Object {
                    assert(merged(map1.m@[key2.id]->Object_0.m@, __m0[key2.id]->Object_0.m@, map2.m@[key2.id]->Object_0.m@, deep, (d - 1) as nat));
                }
            }
            assert forall|id: u64| (#[trigger] __done.contains(id)) implies merged_at(map1.m@, __m0, map2.m@, deep, id) by {
                assert forall|d: nat| merged_key(map1.m@, __m0, map2.m@, deep, d, id) by {
                    if id != key2.id { assert(__done0.contains(id)); assert(merged_at(__m1, __m0, map2.m@, deep, id)); assert(merged_key(__m1, __m0, map2.m@, deep, d, id)); assert(map1.m@[id] == __m1[id]); }
                }
            }
        }
    }"""
MERGE_END = """    proof {
        assert forall|d: nat| merged(map1.m@, __m0, map2.m@, deep, d) by {
            assert forall|k: u64| (#[trigger] map1.m@.dom().contains(k)) implies merged_key(map1.m@, __m0, map2.m@, deep, d, k) by {
                if map2.m@.dom().contains(k) { assert(__done.contains(k)); assert(merged_at(map1.m@, __m0, map2.m@, deep, k)); }
            }
        }
    }"""
UNITS["v_collections"] = dict(
    prop=["C28"], tier="q", prelude=["collections.rs"], native_witness={"C28": ["collection_laws"]},
    fns=[
        dict(id="slice", file="src/stdlib/slice.rs", impl=None, name="slice",
             orig_sig="fn slice(start: i64, end: Option<i64>, value: Value) -> Resolved",
             sig="pub fn slice(start: i64, end: Option<i64>, value: Value) -> (r: Resolved)",
             rewrites=[
                 dict(**{"from": "let range = |len: i64| -> ExpressionResult<Range<usize>> {", "count": 1,
                         "to": "let range = |len: i64| -> (o: ExpressionResult<core::ops::Range<usize>>)\n        requires 0 <= len\n        ensures (match spec_range(start, end, len as int) { Some((s, e)) => o is Ok && o->Ok_0.start == s && o->Ok_0.end == e, None => o is Err })\n    {",
                         "why": "contract stated on the `range` closure (spec only; the closure body is the real one)"}),
                 dict(**{"from": r"Err\(format!\(.*?\)\.into\(\)\)", "regex": True, "count": 1, "to": "Err(err_msg())", "why": "error message text (format!) opaque"}),
                 dict(**{"from": r'Err\(r#".*?"#\.into\(\)\)', "regex": True, "count": 1, "to": "Err(err_msg())", "why": "error message text opaque"}),
                 dict(**{"from": r"range\(v\.len\(\) as i64\)\s*\.map\(\|range\| (.*?)\)\s*\.map\(Value::from\),", "regex": True, "count": 2,
                         "to": r"(match range(len_i64(v.len())) { Ok(range) => Ok((\1).into_value()), Err(e) => Err(e) }),",
                         "why": "Result::map chain by definition; From<Bytes>/From<Vec<Value>> for Value; `len as i64` is the length (std allocation bound, prelude len_i64)"}),
                 dict(**{"from": "v.drain(range).collect::<Vec<_>>()", "count": 1, "to": "vec_drain_collect(&mut v, range)", "why": "Vec::drain + collect as one std contract: the removed sub-sequence in order"}),
                 RW_EXPECTED],
             ensures=[("C28.slice.array_positional", "slice on an array returns exactly the elements at positions [start, min(end, len)) of the input, in order, with negative positions counted from the end; out-of-range start or end < start is an error (every array, every i64 start/end)",
                       "(match value { Value::Array(v) => (match spec_range(start, end, v@.len() as int) { Some((s, e)) => r is Ok && r->Ok_0 is Array && r->Ok_0->Array_0@ == v@.subrange(s, e), None => r is Err }), _ => true })"),
                      ("C28.slice.bytes_positional", "slice on a string returns exactly the bytes at positions [start, min(end, len)), with negative positions counted from the end; out-of-range start or end < start is an error",
                       "(match value { Value::Bytes(v) => (match spec_range(start, end, v.b@.len() as int) { Some((s, e)) => r is Ok && r->Ok_0 is Bytes && r->Ok_0->Bytes_0.b@ == v.b@.subrange(s, e), None => r is Err }), _ => true })"),
                      ("C28.slice.type_error", "slice on anything but a string or array is an error", "(value is Object || value is Integer || value is Other) ==> r is Err")],
             safety_id="C28.slice.safety", safety_text="index arithmetic cannot overflow, the casts to usize are of non-negative values, and the range handed to Bytes::slice / Vec::drain satisfies start <= end <= len (no panic)"),
        dict(id="length", file="src/stdlib/length.rs", impl=None, name="length",
             orig_sig="fn length(value: Value) -> Resolved",
             sig="pub fn length(value: Value) -> (r: Resolved)",
             rewrites=[dict(**{"from": r"\.len\(\)\.into\(\)", "regex": True, "to": ".len().into_value()", "why": "From<usize> for Value"}), RW_EXPECTED],
             ensures=[("C28.length.agrees", "length of an array is its number of elements, of an object its number of keys, of a string its number of bytes",
                       "(match value { Value::Array(v) => r is Ok && r->Ok_0 == Value::Integer(v@.len() as i64), Value::Object(o) => r is Ok && r->Ok_0 == Value::Integer(o.m@.dom().len() as i64), Value::Bytes(b) => r is Ok && r->Ok_0 == Value::Integer(b.b@.len() as i64), _ => r is Err })")],
             safety_id="C28.length.safety"),
        dict(id="merge_maps", file="src/stdlib/merge.rs", impl=None, name="merge_maps",
             orig_sig="fn merge_maps<K>(map1: &mut BTreeMap<K, Value>, map2: &BTreeMap<K, Value>, deep: bool) where K: std::cmp::Ord + Clone,",
             sig="#[verifier::exec_allows_no_decreases_clause]\npub fn merge_maps(map1: &mut ObjectMap, map2: &ObjectMap, deep: bool)",
             rewrites=[dict(**{"from": "for (key2, value2) in map2 {", "count": 1, "to": MERGE_LOOP,
                               "why": "`for (k, v) in &BTreeMap` = each entry exactly once in some order (ref_entries + pop); loop invariant injected here because the loop is produced by this rewrite"}),
                       dict(**{"from": r"\}\s*\}\s*\}\s*$", "regex": True, "count": 1, "to": "}\n        }" + MERGE_STEP + "\n", "why": "proof hint (ghost only) at the end of the loop body"})],
             body_end=MERGE_END,
             ensures=[("C28.merge.law", "merge(to, from): the result has exactly the keys of both; a key only in `to` keeps its value; a key in `from` has from's value, except that a deep merge of two objects under the same key is the merge of those objects -- to every nesting depth (every pair of objects)",
                       "forall|d: nat| merged(final(map1).m@, old(map1).m@, map2.m@, deep, d)")],
             safety_id="C28.merge.safety", safety_text="body obligations; termination of the recursion (bounded by the nesting depth of `from`) is not claimed"),
    ],
)


# ------------------------------------------------------------------------------------------------
# C04/C05: stdlib format_number: the Decimal conversion cannot panic; the fraction has exactly the requested digits
UNITS["v_format_number"] = dict(
    prop=["C05", "C04"], tier="q", prelude=["formatnum.rs"], native_witness={"C05": ["format_number"], "C04": ["format_number"]},
    fns=[
        dict(id="format_number", file="src/stdlib/format_number.rs", impl=None, name="format_number",
             orig_sig="fn format_number(value: Value, scale: Option<Value>, grouping_separator: Option<Value>, decimal_separator: Value,) -> Resolved",
             sig="pub fn format_number(value: Value, scale: Option<Value>, grouping_separator: Option<Value>, decimal_separator: Value) -> (r: Resolved)",
             rewrites=[
                 dict(**{"from": "Value::Integer(v) => v.into(),", "optional": True, "to": "Value::Integer(v) => Decimal::from_i64(v),", "why": "From<i64> for Decimal"}),
                 dict(**{"from": "Decimal::from(v)", "optional": True, "to": "Decimal::from_i64(v)", "why": "From<i64> for Decimal"}),
                 dict(**{"from": "Decimal::from_f64(*v)", "optional": True, "to": "Decimal::from_f64(v.into_inner())", "why": "Deref of NotNan<f64>"}),
                 dict(**{"from": r"let value: (String|Decimal) = match value", "regex": True, "optional": True, "to": "let value = match value", "why": "type annotation dropped (String is Str, Decimal stays Decimal in the prelude)"}),
                 dict(**{"from": r"value => \{\s*return Err\(ValueError::Expected \{.*?\}\s*\.into\(\)\);\s*\}", "regex": True, "count": 1, "to": "value => { return Err(err_expected(value)); }", "why": "type-error construction opaque"}),
                 dict(**{"from": r"let mut parts = value\s*(\.to_string\(\)\s*)?\.split\('\.'\)\s*\.map\(ToOwned::to_owned\)\s*\.collect::<Vec<String>>\(\);", "regex": True, "count": 1,
                         "to": "let mut parts = value.dot_parts();", "why": "split('.') + collect as one contract: one or two digit strings for a rendering with at most one '.'"}),
                 dict(**{"from": r"if let Some\(sep\) = grouping_separator\.as_deref\(\) \{.*?\n    \}\n", "regex": True, "count": 1,
                         "to": "apply_grouping(&mut parts, &grouping_separator);\n", "why": "grouping section (iterator adapters, insert_str) opaque: NOT verified"}),
                 dict(**{"from": r"Ok\(parts\s*\.join\(&String::from_utf8_lossy\(&decimal_separator\[\.\.\]\)\)\s*\.into\(\)\)", "regex": True, "count": 1,
                         "to": "Ok(join_parts(&parts, &decimal_separator))", "why": "join + From<String> for Value as one contract keeping the parts"}),
                 dict(**{"from": "String::new()", "optional": True, "to": "Str::new()", "why": "String as a sequence of chars"}),
                 dict(**{"from": "for _ in 0..", "optional": True, "to": "for _ in __it: 0..", "why": "ghost name for the range iterator (needed to state the loop invariant)"}),
             ],
             loops={"_count": 1, "0": dict(spec="invariant parts@.len() == 2, parts@[1].s@.len() == __len0 + __it.index@", before="let ghost __len0 = parts@[1].s@.len();")},
             ensures=[("C05.format_number.fraction_digits", "with a scale n the result has exactly max(n, 0) fraction digits (no fraction part for n <= 0): the padding loop runs at most n times, whatever the scale (every number, every i64 scale)",
                       "(r is Ok && scale is Some) ==> (match scale->Some_0 { Value::Integer(n) => r->Ok_0 is Text && (if n <= 0 { r->Ok_0->Text_0.parts@.len() == 1 } else { r->Ok_0->Text_0.parts@.len() == 2 && r->Ok_0->Text_0.parts@[1].len() == n }), _ => false })"),
                      ("C05.format_number.no_scale", "without a scale the digits are those of the number's decimal rendering",
                       "(r is Ok && scale is None && value is Integer) ==> r->Ok_0 is Text && r->Ok_0->Text_0.parts@.len() >= 1")],
             safety_id="C04.format_number.safety", safety_text="no panic: the Decimal conversion is not unwrapped when it has no answer (non-finite or out-of-range floats), indices into `parts` are in range, the padding count does not underflow"),
    ],
)


# ------------------------------------------------------------------------------------------------
# C03: the declared type of slice() against what the runtime slice() (contract C28.slice.*) returns
UNITS["v_slice_type"] = dict(
    prop=["C03"], tier="q", prelude=["slicetypes.rs"], native_witness={"C03": ["stdlib_types"]},
    fns=[
        dict(id="slice_type_def", file="src/stdlib/slice.rs", impl="impl FunctionExpression for SliceFn", name="type_def",
             orig_sig="fn type_def(&self, state: &state::TypeState) -> TypeDef",
             wrap=("impl SliceFn {", "}"), sig="pub fn type_def(&self, state: &TypeState) -> (r: TypeDef)",
             rewrites=[dict(**{"from": "TypeDef::from(Kind::never())", "count": 1, "to": "TypeDef::never()", "why": "From<Kind> for TypeDef"})],
             ensures=[("C03.slice.array_elements", "every value slice() can return for an array argument belongs to the declared type: for every array in the argument's type and every in-range [s, e), the sub-array's element at each position has a kind the declared type allows at that position",
                       "forall|a: Seq<int>, s: int, e: int| #![trigger a.subrange(s, e)] (self.value.spec_type(state).m@ == set![ARRAY] && array_in_type(a, self.value.spec_type(state)) && 0 <= s <= e <= a.len()) ==> array_in_type(a.subrange(s, e), r)"),
                      ("C03.slice.string_kind", "for a string argument the declared type is string, and fallible (start may be out of range)",
                       "self.value.spec_type(state).m@ == set![BYTES] ==> r.m@ =~= set![BYTES] && r.fall@"),
                      ("C03.slice.general_kind", "for an argument of any other type the declared type admits strings and arrays of anything, and is fallible",
                       "(self.value.spec_type(state).m@ != set![BYTES] && self.value.spec_type(state).m@ != set![ARRAY]) ==> r.fall@ && r.m@.contains(BYTES) && (forall|a: Seq<int>| array_in_type(a, r))")],
             safety_id="C03.slice_type_def.safety"),
    ],
)


# ------------------------------------------------------------------------------------------------
# C19: Kind::union / merge at the level of collection kinds (the Kind-level dispatch around Collection::merge)
KM = "src/value/kind/merge.rs"
KM_FRAME = "final(self).bytes == old(self).bytes && final(self).integer == old(self).integer && final(self).float == old(self).float && final(self).boolean == old(self).boolean && final(self).timestamp == old(self).timestamp && final(self).regex == old(self).regex && final(self).null == old(self).null && final(self).undefined == old(self).undefined"
UNITS["v_kind_merge"] = dict(
    prop=["C19"], tier="q", prelude=["kindmerge.rs"], native_witness={"C19": ["kind_union"]},
    fns=[
        dict(id="merge_primitives", file=KM, impl="impl Kind", name="merge_primitives",
             orig_sig="fn merge_primitives(&mut self, other: &Self)",
             wrap=("impl Kind {", "}"), sig="pub fn merge_primitives(&mut self, other: &Kind)",
             ensures=[("C19.merge_primitives.contains_both", "merging the scalar members keeps every scalar member of both operands and touches no collection part",
                       "scalar_sup(*final(self), *old(self)) && scalar_sup(*final(self), *other) && final(self).object == old(self).object && final(self).array == old(self).array")],
             safety_id="C19.merge_primitives.safety"),
        dict(id="merge_objects", file=KM, impl="impl Kind", name="merge_objects",
             orig_sig="fn merge_objects(&mut self, other: Option<Box<Collection<Field>>>, overwrite: bool)",
             wrap=("impl Kind {", "}"), sig="pub fn merge_objects(&mut self, other: Option<Box<Coll>>, overwrite: bool)",
             ensures=[("C19.merge_objects.union_contains_both", "under the union strategy the merged kind admits every object either operand admits",
                       "!overwrite ==> (forall|v: CollValue| #![trigger coll_member(v, *old(self).object->Some_0)] (old(self).object is Some && coll_member(v, *old(self).object->Some_0)) ==> object_member(v, *final(self))) && (forall|v: CollValue| #![trigger coll_member(v, *other->Some_0)] (other is Some && coll_member(v, *other->Some_0)) ==> object_member(v, *final(self)))"),
                      ("C19.merge_objects.frame", "only the object part changes", KM_FRAME + " && final(self).array == old(self).array")],
             safety_id="C19.merge_objects.safety"),
        dict(id="merge_keep", file=KM, impl="impl Kind", name="merge_keep",
             orig_sig="fn merge_keep(&mut self, other: Self, overwrite: bool)",
             wrap=("impl Kind {", "}"), sig="pub fn merge_keep(&mut self, other: Kind, overwrite: bool)",
             ensures=[("C19.merge_keep.scalars", "under the union strategy the merged kind keeps every scalar member of both operands",
                       "!overwrite ==> scalar_sup(*final(self), *old(self)) && scalar_sup(*final(self), other)"),
                      ("C19.merge_keep.objects", "under the union strategy the merged kind admits every object either operand admits",
                       "!overwrite ==> (forall|v: CollValue| #![trigger object_member(v, *final(self))] (object_member(v, *old(self)) || object_member(v, other)) ==> object_member(v, *final(self)))"),
                      ("C19.merge_keep.arrays", "under the union strategy the merged kind admits every array either operand admits",
                       "!overwrite ==> (forall|v: CollValue| #![trigger array_member(v, *final(self))] (array_member(v, *old(self)) || array_member(v, other)) ==> array_member(v, *final(self)))")],
             safety_id="C19.merge_keep.safety"),
        dict(id="union", file=KM, impl="impl Kind", name="union",
             orig_sig="fn union(&self, other: Self) -> Self",
             wrap=("impl Kind {", "}"), sig="pub fn union(&self, other: Kind) -> (r: Kind)",
             ensures=[("C19.union.contains_both", "the union of two kinds admits every scalar member, every object and every array either operand admits",
                       "scalar_sup(r, *self) && scalar_sup(r, other) && (forall|v: CollValue| #![trigger object_member(v, r)] (object_member(v, *self) || object_member(v, other)) ==> object_member(v, r)) && (forall|v: CollValue| #![trigger array_member(v, r)] (array_member(v, *self) || array_member(v, other)) ==> array_member(v, r))")],
             safety_id="C19.union.safety"),
    ],
)


# ------------------------------------------------------------------------------------------------
# C19: the unknown part of collection kinds under union
UNK = "src/value/kind/collection/unknown.rs"
UNITS["v_unknown_merge"] = dict(
    prop=["C19"], tier="q", prelude=["unknownmerge.rs"], native_witness={"C19": ["kind_union"]},
    fns=[
        dict(id="infinite_any", file=UNK, impl="impl Infinite", name="any",
             orig_sig="fn any() -> Self", wrap=("impl Infinite {", "}"), sig="pub fn any() -> (r: Infinite)",
             rewrites=[dict(**{"from": "Some(())", "to": "Some(Unit {})", "why": "unit payload"})],
             ensures=[("C19.infinite_any.admits_all", "the `any` infinite kind admits every value", "forall|v: ElemValue| #[trigger] inf_member(v, r)")],
             body_start="broadcast use axiom_tags_valid;", safety_id="C19.infinite_any.safety"),
        dict(id="infinite_merge", file=UNK, impl="impl Infinite", name="merge",
             orig_sig="fn merge(&mut self, other: Self)", wrap=("impl Infinite {", "}"), sig="pub fn merge(&mut self, other: Infinite)",
             ensures=[("C19.infinite_merge.contains_both", "merging two infinite kinds admits every value either admits",
                       "forall|v: ElemValue| (inf_member(v, *old(self)) || inf_member(v, other)) ==> #[trigger] inf_member(v, *final(self))")],
             safety_id="C19.infinite_merge.safety"),
        dict(id="infinite_covering", file=UNK, impl="impl Infinite", name="covering",
             orig_sig="fn covering(self, kind: &Kind) -> Self", wrap=("impl Infinite {", "}"), sig="pub fn covering(self, kind: &Kind) -> (r: Infinite)",
             rewrites=[dict(**{"from": "Self::any()", "to": "Infinite::any()", "why": "Self"})],
             ensures=[("C19.infinite_covering.covers", "the widened infinite kind admits every value of the infinite kind and every value of the exact kind",
                       "forall|v: ElemValue| (inf_member(v, self) || kind_member(v, *kind)) ==> #[trigger] inf_member(v, r)")],
             safety_id="C19.infinite_covering.safety"),
        dict(id="unknown_merge", file=UNK, impl="impl Unknown", name="merge",
             orig_sig="fn merge(&mut self, other: Self, overwrite: bool)", wrap=("impl Unknown {", "}"), sig="pub fn merge(&mut self, other: Unknown, overwrite: bool)",
             ensures=[("C19.unknown_merge.union_contains_both", "under the union strategy the merged unknown kind admits every element value either operand's unknown kind admits (exact with exact, infinite with infinite, and exact with infinite in both orders)",
                       "!overwrite ==> forall|v: ElemValue| (unknown_member(v, *old(self)) || unknown_member(v, other)) ==> #[trigger] unknown_member(v, *final(self))")],
             safety_id="C19.unknown_merge.safety"),
    ],
)


# ------------------------------------------------------------------------------------------------
# C04 / C28: stdlib find: no panic for any offset; the byte search returns the first occurrence at or after the offset
UNITS["v_find"] = dict(
    prop=["C04", "C28"], tier="q", prelude=["findfn.rs"], native_witness={"C04": ["stdlib_watchdog"], "C28": ["string_laws"]},
    fns=[
        dict(id="find_regex_in_str", file="src/stdlib/find.rs", impl="impl FindFn", name="find_regex_in_str",
             orig_sig="fn find_regex_in_str(value: &str, regex: &ValueRegex, offset: usize) -> Option<usize>",
             sig="pub fn find_regex_in_str(value: &Str, regex: &ValueRegex, offset: usize) -> (r: Option<usize>)",
             desugar=["map"] if False else [],
             rewrites=[dict(**{"from": r"regex\.find_at\(value, offset\)\.map\(\|found\| found\.start\(\)\)", "regex": True, "optional": True,
                               "to": "(match regex.find_at(value, offset) { Some(found) => Some(found.start()), None => None })", "why": "Option::map by definition"})],
             ensures=[("C28.find.regex_from_offset", "a regex match reported by find starts at or after the offset and inside the string", "r is Some ==> offset <= r->Some_0 <= value.b@.len()")],
             safety_id="C04.find_regex_in_str.safety", safety_text="regex find_at is never called with a start beyond the end of the string (it panics there), for every offset"),
        dict(id="find_bytes_in_bytes", file="src/stdlib/find.rs", impl="impl FindFn", name="find_bytes_in_bytes",
             orig_sig="fn find_bytes_in_bytes(value: &Bytes, pattern: &Bytes, offset: usize) -> Option<usize>",
             sig="pub fn find_bytes_in_bytes(value: &Bytes, pattern: &Bytes, offset: usize) -> (r: Option<usize>)",
             rewrites=[dict(**{"from": "value[from..to] == *pattern", "count": 1, "to": "slice_eq(value.range(from, to), pattern.as_slice())", "why": "slice indexing through Deref<[u8]> (with its bounds precondition) and [u8] equality"}),
                       dict(**{"from": "for from in offset..=(value.len() - pattern.len()) {", "count": 1,
                               "to": "let __end = value.len() - pattern.len();\n        let mut from = offset;\n        while from <= __end\n            invariant __end == value.b@.len() - pattern.b@.len(), value.b@.len() <= isize::MAX, offset <= from, forall|j: int| offset <= j < from ==> !occurs_at(value.b@, pattern.b@, j),\n            decreases __end + 1 - from,\n        {",
                               "why": "inclusive range loop as a while loop (RangeInclusive iteration), invariant: no occurrence before `from`"}),
                       dict(**{"from": r"(return Some\(from\);\s*\})(\s*)\}", "regex": True, "count": 1, "to": r"\1\n            from += 1;\2}", "why": "loop counter increment of the desugared range loop"})],
             ensures=[("C28.find.first_occurrence", "find on a string pattern returns the first position at or after the offset where the pattern occurs, and null exactly when there is none (agrees with substring position)",
                       "match r { Some(i) => offset <= i && occurs_at(value.b@, pattern.b@, i as int) && forall|j: int| offset <= j < i ==> !occurs_at(value.b@, pattern.b@, j), None => forall|j: int| offset <= j ==> !occurs_at(value.b@, pattern.b@, j) }")],
             safety_id="C04.find_bytes_in_bytes.safety", safety_text="no underflow in len - pattern.len(), slice bounds in range, termination"),
    ],
)


# ------------------------------------------------------------------------------------------------
# C25: from_unix_timestamp / to_unix_timestamp are mutually inverse (all four units, every i64 the first accepts)
UNITS["v_unix_timestamp"] = dict(
    prop=["C25"], tier="q", prelude=["unixts.rs"], native_witness={"C25": ["unix_timestamp_roundtrip"]},
    fns=[
        dict(id="from_unix_timestamp", file="src/stdlib/from_unix_timestamp.rs", impl=None, name="from_unix_timestamp",
             orig_sig="fn from_unix_timestamp(value: Value, unit: Unit) -> Resolved",
             sig="pub fn from_unix_timestamp(value: Value, unit: Unit) -> (r: Resolved)",
             rewrites=[dict(**{"from": "use Value::Integer;", "count": 1, "to": "", "why": "local use of the variant name"}),
                       dict(**{"from": "Integer(v) =>", "count": 1, "to": "Value::Integer(v) =>", "why": "see above"}),
                       dict(**{"from": r"\bUtc\.", "regex": True, "to": "utc().", "why": "chrono::Utc unit struct"}),
                       dict(**{"from": r"Some\(time\) => time\.into\(\),", "regex": True, "to": "Some(time) => time.into_value(),", "why": "From<DateTime<Utc>> for Value"}),
                       dict(**{"from": r"utc\(\)\.timestamp_nanos\(v\)\.into\(\)", "regex": True, "to": "utc().timestamp_nanos(v).into_value()", "why": "From<DateTime<Utc>> for Value"}),
                       dict(**{"from": r"return Err\(format!\([^;]*?\)\.into\(\)\)", "regex": True, "to": "return Err(err_msg())", "why": "error message text opaque"})],
             ensures=[("C25.from_unix_timestamp.instant", "from_unix_timestamp(v, unit) is the instant v units after the epoch, or an error",
                       "r is Ok ==> (value is Integer && r->Ok_0 is Timestamp && r->Ok_0->Timestamp_0.ns == value->Integer_0 * unit_ns(unit) && valid_ts(r->Ok_0))")],
             safety_id="C25.from_unix_timestamp.safety"),
        dict(id="to_unix_timestamp", file="src/stdlib/to_unix_timestamp.rs", impl=None, name="to_unix_timestamp",
             orig_sig="fn to_unix_timestamp(value: Value, unit: Unit) -> Resolved",
             sig="pub fn to_unix_timestamp(value: Value, unit: Unit) -> (r: Resolved)",
             requires=["valid_ts(value)"],
             rewrites=[dict(**{"from": r"None => return Err\(ValueError::OutOfRange\(Kind::timestamp\(\)\)\.into\(\)\),", "regex": True, "optional": True, "to": "None => return Err(ExpressionError::OutOfRange),", "why": "error construction"}),
                       dict(**{"from": "Ok(time.into())", "count": 1, "to": "Ok(int_value(time))", "why": "From<i64> for Value"})],
             ensures=[("C25.to_unix_timestamp.floor", "to_unix_timestamp(t, unit) is the floored count of units from the epoch to t (an error only for nanoseconds outside i64)",
                       "value is Timestamp ==> (match r { Ok(v) => v == Value::Integer(fdiv(value->Timestamp_0.ns, unit_ns(unit)) as i64) && i64::MIN <= fdiv(value->Timestamp_0.ns, unit_ns(unit)) <= i64::MAX, Err(_) => unit is Nanoseconds && !(i64::MIN <= value->Timestamp_0.ns <= i64::MAX) })")],
             safety_id="C25.to_unix_timestamp.safety"),
    ],
    lemmas=[dict(id="C25.unix_timestamp.roundtrip", text="to_unix_timestamp(from_unix_timestamp(v, unit), unit) == v for every i64 v that from_unix_timestamp accepts, in all four units",
                 sig="pub fn unix_timestamp_roundtrip(v: i64, unit: Unit) -> (r: bool)", ensures="r",
                 body="""    match from_unix_timestamp(Value::Integer(v), unit) {
        Ok(t) => {
            proof {
                assert(t->Timestamp_0.ns == v * unit_ns(unit));
                assert(fdiv(v * unit_ns(unit), unit_ns(unit)) == v) by(nonlinear_arith) requires unit_ns(unit) > 0;
            }
            match to_unix_timestamp(t, unit) { Ok(Value::Integer(back)) => back == v, _ => false }
        }
        Err(_) => true,
    }""")],
)


# ------------------------------------------------------------------------------------------------
# C04 / C05: the hand-written byte iterator behind case-insensitive starts_with
UNITS["v_chars_iter"] = dict(
    prop=["C04", "C05"], tier="q", prelude=["charsiter.rs"], native_witness={"C04": ["stdlib_watchdog"], "C05": ["stdlib_watchdog"]},
    fns=[dict(id="chars_next", file="src/stdlib/starts_with.rs", impl="impl Iterator for Chars<'_>", name="next",
              orig_sig="fn next(&mut self) -> Option<Self::Item>",
              wrap=("impl<'a> Chars<'a> {", "}"), sig="pub fn next(&mut self) -> (r: Option<Result<char, u8>>)",
              requires=["old(self).pos <= old(self).bytes.b@.len()"],
              rewrites=[dict(**{"from": "utf8_width::get_width(", "to": "get_width(", "count": 1, "why": "external crate function (contract: at most 4)"}),
                        dict(**{"from": r"std::str::from_utf8\(&self\.bytes\[self\.pos\.\.([^\]]*?)\]\)", "regex": True, "count": 1, "to": r"from_utf8_range(self.bytes, self.pos, \1)", "why": "slice + from_utf8 as one call carrying the slice's bounds precondition"}),
                        dict(**{"from": r"chr\.chars\(\)\.next\(\)", "regex": True, "optional": True, "to": "first_char(&chr)", "why": "str::chars().next()"}),
                        dict(**{"from": r"self\.bytes\[([^\]]*?)\]", "regex": True, "to": r"self.bytes.at(\1)", "why": "byte indexing through Deref<[u8]> with its bounds precondition"})],
              ensures=[("C05.chars_next.progress", "every call that yields an item consumes at least one byte and never moves past the end, so iterating a string takes at most as many steps as it has bytes; it ends exactly at the end of the input",
                        "final(self).bytes == old(self).bytes && final(self).pos <= final(self).bytes.b@.len() && (r is Some ==> final(self).pos > old(self).pos) && (r is None ==> old(self).pos >= old(self).bytes.b@.len())")],
              safety_id="C04.chars_next.safety", safety_text="no out-of-bounds slice or index and no unwrap of an empty decode, for every byte string (valid UTF-8 or not)")],
)
