"""Verus unit registry: which real functions are extracted, their contracts and declared rewrites."""
UNITS = {}

CLOSURE = "src/compiler/function/closure.rs"
RUNNER_IMPL = "impl<'a, T> Runner<'a, T>"
RW_RUNNER = dict(**{"from": "(self.runner)(ctx)", "to": "self.call_runner(ctx)", "why": "Verus has no Fn(&mut _) calls; call_runner = havoc contract"})


def runner_ensures(fn, nparams, valued):
    out = "final(ctx).trace@.last()->RunClosure_0"
    e = [
        ("C13.%s.restore" % fn, "every closure parameter variable holds its pre-call binding (or stays unset) on every exit",
         "params_restored(*self, old(ctx).state.vars@, final(ctx).state.vars@, %d)" % nparams),
        ("C13.%s.once" % fn, "the closure body runs exactly once per iteration",
         "closure_ran_once(old(ctx).trace@, final(ctx).trace@)"),
        ("C07.%s.abort" % fn, "abort raised in the closure body propagates unchanged out of the iteration",
         "(%s is Err && %s->Err_0 is Abort) ==> (r is Err && r->Err_0 == %s->Err_0)" % (out, out, out)),
    ]
    if valued:
        e.append(("C06.%s.outcome" % fn, "Ok(v) and `return v` both yield iteration value v; errors propagate unchanged",
                  "r == iteration_value(%s)" % out))
    else:
        e.append(("C06.%s.return" % fn, "`return v` ends the iteration successfully (it is not propagated as an error)",
                  "(%s is Err && %s->Err_0 is Return) ==> !(r is Err && r->Err_0 is Return)" % (out, out)))
    return e


UNITS["v_closure_runner"] = dict(
    prop=["C13", "C06", "C07"], tier="q", prelude=["interp.rs", "closure.rs"],
    witness=[],
    fns=[
        dict(id="cleanup", file=CLOSURE, impl=None, name="cleanup",
             orig_sig="fn cleanup(state: &mut RuntimeState, ident: Option<&Ident>, data: Option<Value>)",
             sig="pub fn cleanup(state: &mut RuntimeState, ident: Option<&Ident>, data: Option<Value>)",
             ensures=[("C13.cleanup.restore_or_remove", "cleanup restores the saved binding or removes the variable, and touches nothing else",
                       "final(state).vars@ == (match (ident, data) {\n    (Some(i), Some(v)) => old(state).vars@.insert(i.id, v),\n    (Some(i), None) => old(state).vars@.remove(i.id),\n    _ => old(state).vars@ })")],
             safety_id="C13.cleanup.safety"),
        dict(id="run_key_value", file=CLOSURE, impl=RUNNER_IMPL, name="run_key_value",
             orig_sig="fn run_key_value( &self, ctx: &mut Context, key: &str, value: &Value, ) -> Result<Value, ExpressionError>",
             wrap=("impl Runner {", "}"),
             sig="pub fn run_key_value(&self, ctx: &mut Context, key: &Str, value: &Value) -> (r: Result<Value, ExpressionError>)",
             requires=["distinct_params(*self)"],
             ensures=runner_ensures("run_key_value", 2, True),
             rewrites=[RW_RUNNER,
                       dict(**{"from": "cloned_key.into()", "to": "cloned_key.into_value()", "why": "From<String> for Value: opaque conversion"})],
             safety_id="C13.run_key_value.safety"),
        dict(id="run_index_value", file=CLOSURE, impl=RUNNER_IMPL, name="run_index_value",
             orig_sig="fn run_index_value( &self, ctx: &mut Context, index: usize, value: &Value, ) -> Result<Value, ExpressionError>",
             wrap=("impl Runner {", "}"),
             sig="pub fn run_index_value(&self, ctx: &mut Context, index: usize, value: &Value) -> (r: Result<Value, ExpressionError>)",
             requires=["distinct_params(*self)"],
             ensures=runner_ensures("run_index_value", 2, True),
             rewrites=[RW_RUNNER,
                       dict(**{"from": "index.into()", "to": "usize_into_value(index)", "why": "From<usize> for Value: opaque conversion"})],
             safety_id="C13.run_index_value.safety"),
        dict(id="map_key", file=CLOSURE, impl=RUNNER_IMPL, name="map_key",
             orig_sig="fn map_key(&self, ctx: &mut Context, key: &mut KeyString) -> Result<(), ExpressionError>",
             wrap=("impl Runner {", "}"),
             sig="pub fn map_key(&self, ctx: &mut Context, key: &mut KeyString) -> (r: Result<(), ExpressionError>)",
             ensures=runner_ensures("map_key", 1, False),
             rewrites=[RW_RUNNER,
                       dict(**{"from": "cloned_key.into()", "to": "cloned_key.into_value()", "why": "From<KeyString> for Value: opaque conversion"}),
                       dict(**{"from": ".try_bytes_utf8_lossy()?.into()", "to": ".try_into_key_string()?", "why": "Value -> KeyString conversion or non-control-flow Error (havoc contract)"})],
             safety_id="C13.map_key.safety"),
        dict(id="map_value", file=CLOSURE, impl=RUNNER_IMPL, name="map_value",
             orig_sig="fn map_value(&self, ctx: &mut Context, value: &mut Value) -> Result<(), ExpressionError>",
             wrap=("impl Runner {", "}"),
             sig="pub fn map_value(&self, ctx: &mut Context, value: &mut Value) -> (r: Result<(), ExpressionError>)",
             ensures=runner_ensures("map_value", 1, False) + [
                 ("C06.map_value.value", "the mapped value is the closure's value, or the value given to `return`",
                  "iteration_value(final(ctx).trace@.last()->RunClosure_0) is Ok ==> r is Ok && *final(value) == iteration_value(final(ctx).trace@.last()->RunClosure_0)->Ok_0")],
             rewrites=[RW_RUNNER],
             safety_id="C13.map_value.safety"),
    ],
)
