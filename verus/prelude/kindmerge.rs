// ---- prelude for Kind::{merge_primitives, merge_objects, merge_keep, union} (src/value/kind/merge.rs)
// Collections are abstract; what is assumed of Collection::merge under the union strategy
// (overwrite == false) is the law the property states for it: the merged collection admits every
// value either operand admits.
pub struct Coll { pub c: int }
pub struct CollValue { pub v: int }       // an object or array value
pub uninterp spec fn spec_coll_merge(a: Coll, b: Coll, overwrite: bool) -> Coll;
pub uninterp spec fn coll_member(v: CollValue, c: Coll) -> bool;
impl Coll {
    #[verifier::external_body] pub fn merge(&mut self, other: Coll, overwrite: bool) ensures *final(self) == spec_coll_merge(*old(self), other, overwrite),
        // assumed law of Collection::merge under the union strategy
        !overwrite ==> forall|v: CollValue| (coll_member(v, *old(self)) || coll_member(v, other)) ==> #[trigger] coll_member(v, *final(self)) { unimplemented!() }
}
pub type Field = Coll;
pub type Collection<T> = T;
#[derive(Clone, Copy, PartialEq, Eq, Structural)]
pub struct Unit {}
pub struct Kind {
    pub bytes: Option<Unit>, pub integer: Option<Unit>, pub float: Option<Unit>, pub boolean: Option<Unit>, pub timestamp: Option<Unit>,
    pub regex: Option<Unit>, pub null: Option<Unit>, pub undefined: Option<Unit>,
    pub object: Option<Box<Coll>>, pub array: Option<Box<Coll>>,
}
impl Clone for Kind { #[verifier::external_body] fn clone(&self) -> (r: Self) ensures r == *self { unimplemented!() } }
pub assume_specification<T>[ Option::<T>::or ](a: Option<T>, b: Option<T>) -> (r: Option<T>)
    ensures r == (match a { Some(x) => Some(x), None => b });
// a collection value belongs to the object (array) part of a kind
pub open spec fn object_member(v: CollValue, k: Kind) -> bool { k.object is Some && coll_member(v, *k.object->Some_0) }
pub open spec fn array_member(v: CollValue, k: Kind) -> bool { k.array is Some && coll_member(v, *k.array->Some_0) }
pub open spec fn scalar_sup(a: Kind, b: Kind) -> bool {
    (b.bytes is Some ==> a.bytes is Some) && (b.integer is Some ==> a.integer is Some) && (b.float is Some ==> a.float is Some) && (b.boolean is Some ==> a.boolean is Some)
    && (b.timestamp is Some ==> a.timestamp is Some) && (b.regex is Some ==> a.regex is Some) && (b.null is Some ==> a.null is Some) && (b.undefined is Some ==> a.undefined is Some)
}
