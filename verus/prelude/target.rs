// ---- prelude for target access sites: query.rs, assignment.rs (Target::insert), del.rs, exists.rs, runtime.rs
pub struct Variable { pub id: Ghost<int>, pub ident: Ident }
pub struct FunctionCallNode { pub id: Ghost<int> }
pub struct ContainerNode { pub id: Ghost<int> }
pub struct DynExpression { pub id: Ghost<int> }
impl Variable {
    #[verifier::external_body]
    pub fn resolve(&self, ctx: &mut Context) -> (r: Resolved)
        ensures final(ctx).trace@ == old(ctx).trace@.push(Ev::Eval(self.id@, r)), final(ctx).target == old(ctx).target,
    { unimplemented!() }
}
impl FunctionCallNode {
    #[verifier::external_body]
    pub fn resolve(&self, ctx: &mut Context) -> (r: Resolved)
        ensures final(ctx).trace@ == old(ctx).trace@.push(Ev::Eval(self.id@, r)),
    { unimplemented!() }
}
impl ContainerNode {
    #[verifier::external_body]
    pub fn resolve(&self, ctx: &mut Context) -> (r: Resolved)
        ensures final(ctx).trace@ == old(ctx).trace@.push(Ev::Eval(self.id@, r)),
    { unimplemented!() }
}
impl DynExpression {
    #[verifier::external_body]
    pub fn resolve(&self, ctx: &mut Context) -> (r: Resolved)
        ensures final(ctx).trace@ == old(ctx).trace@.push(Ev::Eval(self.id@, r)),
    { unimplemented!() }
}
impl Variable {
    pub fn ident(&self) -> (r: &Ident) ensures *r == self.ident { &self.ident }
}
impl OwnedValuePath {
    #[verifier::external_body]
    pub fn root() -> (r: OwnedValuePath) ensures r.root { unimplemented!() }
}
pub uninterp spec fn spec_unnest_root(root: Value, path: OwnedValuePath) -> Resolved;
// unnest_root works on values only (clone/remove/insert): no target access; opaque here
#[verifier::external_body]
pub fn unnest_root(root: &Value, path: &OwnedValuePath) -> (r: Resolved)
    ensures r == spec_unnest_root(*root, *path),
{ unimplemented!() }
pub enum QueryTarget { Internal(Variable), External(PathPrefix), FunctionCall(FunctionCallNode), Container(ContainerNode) }
pub struct Query { pub target: QueryTarget, pub path: OwnedValuePath, pub dynexpr: DynExpression }

impl Value {
    // Value::get / insert / remove / at_path over a path: the C18 units; opaque here
    // reading the root path of a value yields the value itself (crud::get with no segments)
    #[verifier::external_body]
    pub fn get(&self, path: &OwnedValuePath) -> (r: Option<&Value>)
        ensures path.root ==> r == Some(self),
    { unimplemented!() }
    #[verifier::external_body]
    pub fn insert(&mut self, path: &OwnedValuePath, value: Value) -> (r: Option<Value>) { unimplemented!() }
    #[verifier::external_body]
    pub fn remove(&mut self, path: &OwnedValuePath, compact: bool) -> (r: Option<Value>) { unimplemented!() }
    #[verifier::external_body]
    pub fn at_path(self, path: &OwnedValuePath) -> (r: Value) { unimplemented!() }
}
impl RuntimeState {
    #[verifier::external_body]
    pub fn variable(&self, ident: &Ident) -> (r: Option<&Value>) { unimplemented!() }
    #[verifier::external_body]
    pub fn variable_mut(&mut self, ident: &Ident) -> (r: Option<&mut Value>) { unimplemented!() }
}
impl Query {
    pub fn path(&self) -> (r: &OwnedValuePath) ensures *r == self.path { &self.path }
    pub fn target(&self) -> (r: &QueryTarget) ensures *r == self.target { &self.target }
    // contracts of Query::variable_ident / expression_target (one-line matches on the target)
    #[verifier::external_body]
    pub fn variable_ident(&self) -> (r: Option<&Ident>)
        ensures r is Some <==> self.target is Internal,
    { unimplemented!() }
    #[verifier::external_body]
    pub fn expression_target(&self) -> (r: Option<&DynExpression>)
        ensures r is Some <==> (self.target is FunctionCall || self.target is Container), r is Some ==> *r->Some_0 == self.dynexpr,
    { unimplemented!() }
}
pub open spec fn read_as_missing(o: Result<Option<Value>, Str>) -> Value {
    match o { Ok(Some(v)) => v, _ => Value::Null }
}

// ---- assignment target
pub enum ATarget { Noop, Internal(Ident, OwnedValuePath), External(OwnedTargetPath) }

// ---- runtime
pub struct TimeZone { pub id: u64 }
pub struct ProgramObj { pub id: u64 }
pub struct Runtime { pub state: RuntimeState }
pub enum Terminate { Abort(ExpressionError), Error(ExpressionError) }
pub type RuntimeResult = Result<Value, Terminate>;
impl ProgramObj {
    // `let mut ctx = Context::new(target, &mut self.state, timezone); program.resolve(&mut ctx)`:
    // running the program is recorded as one ProgramRun event on the target's operation log
    #[verifier::external_body]
    pub fn resolve_with(&self, target: &mut TargetObj, state: &mut RuntimeState, tz: &TimeZone) -> (r: Resolved)
        ensures final(target).ops@ == old(target).ops@.push(TOp::ProgramRun(r)),
    { unimplemented!() }
}
impl OwnedTargetPath {
    pub uninterp spec fn root_spec(prefix: PathPrefix) -> OwnedTargetPath;
    #[verifier::external_body]
    pub fn root(prefix: PathPrefix) -> (r: OwnedTargetPath) ensures r == Self::root_spec(prefix) { unimplemented!() }
    pub uninterp spec fn event_root_spec() -> OwnedTargetPath;
    #[verifier::external_body]
    pub fn event_root() -> (r: OwnedTargetPath) ensures r == Self::event_root_spec() { unimplemented!() }
}
#[verifier::external_body]
pub fn opaque_error() -> (r: ExpressionError) ensures r is Error { unimplemented!() }
pub open spec fn run_outcome(out: Resolved) -> RuntimeResult {
    match out {
        Ok(v) => Ok(v),
        Err(ExpressionError::Return { span, value }) => Ok(value),
        Err(ExpressionError::Error { message, labels, notes }) => Err(Terminate::Error(ExpressionError::Error { message, labels, notes })),
        Err(e) => Err(Terminate::Abort(e)),
    }
}
