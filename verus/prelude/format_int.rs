// ---- prelude for src/stdlib/format_int.rs ----------------------------------------------
use std::collections::VecDeque;
pub uninterp spec fn digit_val(c: char) -> int;
// contract of std::char::from_digit (trusted std): a digit character of value `num`, never '-'
pub assume_specification [std::char::from_digit](num: u32, radix: u32) -> (r: Option<char>)
    ensures (2 <= radix <= 36 && num < radix) ==> (r is Some && digit_val(r->Some_0) == num && r->Some_0 != '-'),
            (2 <= radix <= 36 && num >= radix) ==> r is None;
pub assume_specification [i64::unsigned_abs](x: i64) -> (r: u64)
    ensures r as int == (if x < 0 { -(x as int) } else { x as int });

pub open spec fn pow(b: int, e: nat) -> int decreases e { if e == 0 { 1 } else { b * pow(b, (e - 1) as nat) } }
/// positional value of a digit string, most significant digit first
pub open spec fn val(s: Seq<char>, radix: int) -> int decreases s.len() {
    if s.len() == 0 { 0 } else { digit_val(s[0]) * pow(radix, (s.len() - 1) as nat) + val(s.drop_first(), radix) }
}
pub open spec fn all_digits(s: Seq<char>, radix: int) -> bool {
    forall|i: int| 0 <= i < s.len() ==> 0 <= digit_val(#[trigger] s[i]) < radix && s[i] != '-'
}
pub open spec fn abs_i64(x: i64) -> int { if x < 0 { -(x as int) } else { x as int } }

proof fn lemma_push_front(s: Seq<char>, c: char, radix: int)
    ensures val(seq![c] + s, radix) == digit_val(c) * pow(radix, s.len()) + val(s, radix)
{
    let t = seq![c] + s;
    assert(t.drop_first() =~= s);
    assert(t[0] == c);
}
proof fn lemma_step(x: int, r: int, p: int, v: int, m: int, q: int)
    requires r >= 2, x >= 0, m == x % r, q == x / r,
    ensures q * (r * p) + m * p + v == x * p + v, (x > 0 ==> q < x), q >= 0, 0 <= m < r,
{
    assert(x == q * r + m) by(nonlinear_arith) requires r >= 2, x >= 0, m == x % r, q == x / r;
    assert(q * (r * p) + m * p == (q * r + m) * p) by(nonlinear_arith);
    assert(x > 0 ==> q < x) by(nonlinear_arith) requires r >= 2, x >= 0, q == x / r;
    assert(q >= 0 && 0 <= m < r) by(nonlinear_arith) requires r >= 2, x >= 0, m == x % r, q == x / r;
}
// parse side (trusted std): i64::from_str_radix on "-"? digits returns the signed positional value
// when it fits; the round trip parse_int(format_int(x, b), b) == x is lemma_round_trip below.
pub open spec fn parsed(s: Seq<char>, radix: int) -> int {
    if s.len() > 0 && s[0] == '-' { -val(s.drop_first(), radix) } else { val(s, radix) }
}
