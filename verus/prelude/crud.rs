// ---- prelude for src/value/value/crud/mod.rs (array element operations) -----------------
pub struct Opaque { pub id: u64 }
pub enum Value { Null, Boolean(bool), Integer(i64), Other(Opaque) }
impl Clone for Value {
    #[verifier::external_body]
    fn clone(&self) -> (r: Self) ensures r == *self { unimplemented!() }
}

pub open spec fn nulls(n: nat) -> Seq<Value> { Seq::new(n, |i: int| Value::Null) }

/// the element an index addresses: non-negative from the front, negative from the back
pub open spec fn spec_index(len: int, key: int) -> Option<int> {
    if key >= 0 { Some(key) } else if len + key >= 0 { Some(len + key) } else { None }
}
pub open spec fn spec_get(s: Seq<Value>, key: int) -> Option<Value> {
    match spec_index(s.len() as int, key) {
        Some(i) => if i < s.len() { Some(s[i]) } else { None },
        None => None,
    }
}
/// whole-sequence result of inserting `v` at `key` (padding with null; negative keys grow at the front)
pub open spec fn spec_insert(s: Seq<Value>, key: int, v: Value) -> Seq<Value> {
    if key >= 0 {
        if key < s.len() { s.update(key, v) } else { s + nulls((key - s.len()) as nat) + seq![v] }
    } else {
        if -key <= s.len() { s.update(s.len() + key, v) } else { seq![v] + nulls((-key - s.len() - 1) as nat) + s }
    }
}
pub open spec fn spec_remove(s: Seq<Value>, key: int) -> Seq<Value> {
    match spec_index(s.len() as int, key) {
        Some(i) => if i < s.len() { s.remove(i) } else { s },
        None => s,
    }
}
pub open spec fn opt_val(o: Option<&Value>) -> Option<Value> { match o { Some(v) => Some(*v), None => None } }

pub assume_specification<T> [std::mem::replace::<T>](dest: &mut T, src: T) -> (r: T)
    ensures *final(dest) == src, r == *old(dest);

