// ---- prelude for stdlib from_unix_timestamp / to_unix_timestamp: chrono DateTime<Utc> as a count of
// nanoseconds since the epoch.  The chrono accessors are specified by their documentation: seconds /
// milliseconds / microseconds are floored counts, timestamp_nanos_opt is the count when it fits an i64.
pub struct Opaque { pub id: u64 }
pub struct DateTime { pub ns: int }
pub open spec fn in_chrono_range(ns: int) -> bool { -8_334_601_228_800_000_000_000 <= ns <= 8_210_266_876_799_999_999_999 }  // years -262143..=262142
pub open spec fn fdiv(a: int, b: int) -> int { if a >= 0 { a / b } else { -((-a + b - 1) / b) } }
impl DateTime {
    #[verifier::external_body] pub fn timestamp(&self) -> (r: i64) requires in_chrono_range(self.ns) ensures r == fdiv(self.ns, 1_000_000_000) { unimplemented!() }
    #[verifier::external_body] pub fn timestamp_millis(&self) -> (r: i64) requires in_chrono_range(self.ns) ensures r == fdiv(self.ns, 1_000_000) { unimplemented!() }
    #[verifier::external_body] pub fn timestamp_micros(&self) -> (r: i64) requires in_chrono_range(self.ns) ensures r == fdiv(self.ns, 1_000) { unimplemented!() }
    #[verifier::external_body] pub fn timestamp_nanos_opt(&self) -> (r: Option<i64>) ensures r == (if i64::MIN <= self.ns <= i64::MAX { Some(self.ns as i64) } else { None::<i64> }) { unimplemented!() }
    #[verifier::external_body] pub fn into_value(self) -> (r: Value) ensures r == Value::Timestamp(self) { unimplemented!() }
}
pub struct LocalResult { pub t: Option<DateTime> }
impl LocalResult { pub fn single(self) -> (r: Option<DateTime>) ensures r == self.t { self.t } }
pub struct UtcZone {}
#[verifier::external_body] pub fn utc() -> (r: UtcZone) { unimplemented!() }
impl UtcZone {
    // Utc.timestamp_opt(secs, 0) / timestamp_millis_opt / timestamp_micros: the instant, or none when outside chrono's range
    #[verifier::external_body] pub fn timestamp_opt(&self, secs: i64, nsecs: u32) -> (r: LocalResult)
        ensures r.t == (if in_chrono_range(secs * 1_000_000_000 + nsecs) { Some(DateTime { ns: secs * 1_000_000_000 + nsecs }) } else { None::<DateTime> }) { unimplemented!() }
    #[verifier::external_body] pub fn timestamp_millis_opt(&self, millis: i64) -> (r: LocalResult)
        ensures r.t == (if in_chrono_range(millis * 1_000_000) { Some(DateTime { ns: millis * 1_000_000 }) } else { None::<DateTime> }) { unimplemented!() }
    #[verifier::external_body] pub fn timestamp_micros(&self, micros: i64) -> (r: LocalResult)
        ensures r.t == (if in_chrono_range(micros * 1_000) { Some(DateTime { ns: micros * 1_000 }) } else { None::<DateTime> }) { unimplemented!() }
    #[verifier::external_body] pub fn timestamp_nanos(&self, nanos: i64) -> (r: DateTime) ensures r.ns == nanos { unimplemented!() }
}
pub enum Value { Integer(i64), Timestamp(DateTime), Other(Opaque) }
pub enum ExpressionError { Msg(Opaque), OutOfRange, Expected(Opaque) }
pub type Resolved = Result<Value, ExpressionError>;
impl Value {
    #[verifier::external_body] pub fn try_timestamp(self) -> (r: Result<DateTime, ExpressionError>) ensures (match self { Value::Timestamp(t) => r == Ok::<DateTime, ExpressionError>(t), _ => r is Err }) { unimplemented!() }
}
#[verifier::external_body] pub fn err_msg() -> (r: ExpressionError) { unimplemented!() }
#[verifier::external_body] pub fn int_value(i: i64) -> (r: Value) ensures r == Value::Integer(i) { unimplemented!() }
#[derive(Clone, Copy)]
pub enum Unit { Seconds, Milliseconds, Microseconds, Nanoseconds }
pub open spec fn unit_ns(u: Unit) -> int { match u { Unit::Seconds => 1_000_000_000, Unit::Milliseconds => 1_000_000, Unit::Microseconds => 1_000, Unit::Nanoseconds => 1 } }
// a timestamp value is always inside chrono's range (type invariant of DateTime<Utc>)
pub open spec fn valid_ts(v: Value) -> bool { v is Timestamp ==> in_chrono_range(v->Timestamp_0.ns) }
