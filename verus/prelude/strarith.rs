// ---- prelude for the string arms of try_add / try_mul (src/compiler/value/arithmetic.rs)
global size_of usize == 8;   // 64-bit target (the only one the repository builds for here)
pub struct Opaque { pub id: u64 }
pub struct KindObj { pub id: u64 }
pub struct F64W { pub id: u64 }
// bytes::Bytes as its byte sequence
pub struct Bytes { pub b: Ghost<Seq<u8>> }
pub struct BytesMut { pub b: Ghost<Seq<u8>> }
impl Bytes {
    #[verifier::external_body] pub fn len(&self) -> (r: usize) ensures r == self.b@.len() { unimplemented!() }
    // [u8]::repeat(n) through Deref: n copies of the bytes, in order
    #[verifier::external_body] pub fn repeat(&self, n: usize) -> (r: Vec<u8>) ensures r@ == spec_repeat(self.b@, n as nat) { unimplemented!() }
    #[verifier::external_body] pub fn from(v: Vec<u8>) -> (r: Bytes) ensures r.b@ == v@ { unimplemented!() }
    #[verifier::external_body] pub fn into_value(self) -> (r: Value) ensures r == Value::Bytes(self) { unimplemented!() }
}
impl BytesMut {
    #[verifier::external_body] pub fn with_capacity(n: usize) -> (r: BytesMut) ensures r.b@ == Seq::<u8>::empty() { unimplemented!() }
    // BufMut::put: append
    #[verifier::external_body] pub fn put(&mut self, src: Bytes) ensures final(self).b@ == old(self).b@ + src.b@ { unimplemented!() }
    #[verifier::external_body] pub fn freeze(self) -> (r: Bytes) ensures r.b@ == self.b@ { unimplemented!() }
}
pub open spec fn spec_repeat(s: Seq<u8>, n: nat) -> Seq<u8> decreases n { if n == 0 { Seq::<u8>::empty() } else { spec_repeat(s, (n - 1) as nat) + s } }

pub enum Value { Bytes(Bytes), Integer(i64), Float(F64W), Null, Other(Opaque) }
impl Value {
    #[verifier::external_body] pub fn kind(&self) -> (r: KindObj) { unimplemented!() }
}
pub enum ValueError { NanFloat, DivideByZero, Add(KindObj, KindObj), Mul(KindObj, KindObj), Other(Opaque) }
impl F64W {
    #[verifier::external_body] pub fn into_inner(self) -> (r: F64W) { unimplemented!() }
}
// numeric arms are decided bit-precisely by the C11 Kani units; opaque here
#[verifier::external_body] pub fn float_add_if(l: i64, r: F64W) -> (o: Result<Value, ValueError>) { unimplemented!() }
#[verifier::external_body] pub fn float_add_fi(l: F64W, r: i64) -> (o: Result<Value, ValueError>) { unimplemented!() }
#[verifier::external_body] pub fn float_add_ff(l: F64W, r: F64W) -> (o: Result<Value, ValueError>) { unimplemented!() }
#[verifier::external_body] pub fn float_mul_if(l: i64, r: F64W) -> (o: Result<Value, ValueError>) { unimplemented!() }
#[verifier::external_body] pub fn float_mul_fi(l: F64W, r: i64) -> (o: Result<Value, ValueError>) { unimplemented!() }
#[verifier::external_body] pub fn float_mul_ff(l: F64W, r: F64W) -> (o: Result<Value, ValueError>) { unimplemented!() }
#[verifier::external_body] pub fn wrapping_add_value(l: i64, r: i64) -> (o: Value) ensures o is Integer { unimplemented!() }
#[verifier::external_body] pub fn wrapping_mul_value(l: i64, r: i64) -> (o: Value) ensures o is Integer { unimplemented!() }
