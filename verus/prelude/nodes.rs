// ---- prelude for src/compiler/expression/*.rs node bodies --------------------------
// Child contract (induction hypothesis of DESIGN §2): evaluating a child appends exactly one
// `Ev::Eval(child id, outcome)` to the trace; its outcome and its effect on the store are arbitrary.
pub struct Expr { pub id: Ghost<int> }
impl Expr {
    #[verifier::external_body]
    pub fn resolve(&self, ctx: &mut Context) -> (r: Resolved)
        ensures final(ctx).trace@ == old(ctx).trace@.push(Ev::Eval(self.id@, r)),
    { unimplemented!() }
}

pub open spec fn is_prefix(pre: Seq<Ev>, post: Seq<Ev>) -> bool {
    pre.len() <= post.len() && forall|i: int| 0 <= i < pre.len() ==> post[i] == pre[i]
}
/// number of events this node appended
pub open spec fn added(pre: Seq<Ev>, post: Seq<Ev>) -> int { post.len() - pre.len() }
/// k-th event appended by this node
pub open spec fn nth(pre: Seq<Ev>, post: Seq<Ev>, k: int) -> Ev { post[pre.len() + k] }
pub open spec fn eval_of(e: Ev, id: int) -> bool { e is Eval && e->Eval_0 == id }
pub open spec fn outcome(e: Ev) -> Resolved { e->Eval_1 }

/// Ctl (C06/C07): whenever a child evaluated by this node yields `abort` or `return`, that is the
/// last thing this node does and the node's own result is exactly that outcome.
pub open spec fn ctl_propagates(pre: Seq<Ev>, post: Seq<Ev>, r: Resolved) -> bool {
    &&& is_prefix(pre, post)
    &&& forall|i: int| pre.len() <= i < post.len() && (#[trigger] post[i]) is Eval
            && post[i]->Eval_1 is Err && is_ctl(post[i]->Eval_1->Err_0)
            ==> i == post.len() - 1 && r == post[i]->Eval_1
}

impl Value {
    // `.try_boolean()?` inside a fn returning Resolved = VrlValueConvert::try_boolean followed by
    // From<ValueError> for ExpressionError (always the `Error` variant). Discharged by Kani units
    // k_try_boolean / k_value_error_into.
    #[verifier::external_body]
    pub fn try_boolean_ee(self) -> (r: Result<bool, ExpressionError>)
        ensures match self { Value::Boolean(b) => r == Ok::<bool, ExpressionError>(b), _ => r is Err && r->Err_0 is Error },
    { unimplemented!() }
    // `.try_bytes_utf8_lossy()?.to_string()`
    #[verifier::external_body]
    pub fn try_message(self) -> (r: Result<Msg, ExpressionError>)
        ensures r is Err ==> r->Err_0 is Error,
    { unimplemented!() }
}

// ---- node structs (field names and types as in /repo; collections of children are sequences)
pub struct Not { pub inner: Box<Expr> }
pub enum UnaryVariant { Not(Not) }
pub struct Unary { pub variant: UnaryVariant }
pub struct Return { pub span: Span, pub expr: Box<Expr> }
pub struct Abort { pub span: Span, pub message: Option<Box<Expr>> }
pub struct Block { pub inner: Vec<Expr>, pub new_scope: bool }
impl Block {
    pub fn exprs(&self) -> (r: &Vec<Expr>) ensures *r == self.inner { &self.inner }
}
pub struct Predicate { pub inner: Block }
pub struct Group { pub inner: Box<Expr> }
pub struct Array { pub inner: Vec<Expr> }
pub struct Object { pub inner: Vec<(KeyString, Expr)> }   // BTreeMap<KeyString, Expr> in iteration (key) order
pub enum ContainerVariant { Group(Group), Block(Block), Array(Array), Object(Object) }
pub struct Container { pub variant: ContainerVariant }
pub struct IfStatement { pub predicate: Predicate, pub if_block: Block, pub else_block: Option<Block> }
pub struct Program { pub expressions: Block }

/// no appended event in [from, to) is a child that raised abort/return
pub open spec fn no_ctl_in(t: Seq<Ev>, from: int, to: int) -> bool {
    forall|i: int| from <= i < to ==> !((#[trigger] t[i]) is Eval && t[i]->Eval_1 is Err && is_ctl(t[i]->Eval_1->Err_0))
}
/// every appended event in [from, to) is a successful child evaluation (used by the sequence nodes)
pub open spec fn all_ok_in(t: Seq<Ev>, from: int, to: int) -> bool {
    forall|i: int| from <= i < to ==> (#[trigger] t[i]) is Eval && t[i]->Eval_1 is Ok
}
/// the appended events are exactly children 0..n of `kids`, in order
pub open spec fn evals_in_order(t: Seq<Ev>, from: int, kids: Seq<Expr>, n: int) -> bool {
    forall|k: int| 0 <= k < n ==> (#[trigger] t[from + k]) is Eval && t[from + k]->Eval_0 == kids[k].id@
}
pub open spec fn kids_of_object(s: Seq<(KeyString, Expr)>) -> Seq<Expr> { s.map_values(|p: (KeyString, Expr)| p.1) }

// `self.inner.split_last().expect("at least one expression")`
pub fn split_last_expr(v: &Vec<Expr>) -> (r: (&Expr, &[Expr]))
    requires v@.len() > 0,
    ensures *r.0 == v@[v@.len() - 1], r.1@ == v@.subrange(0, v@.len() - 1), r.1@.len() == v@.len() - 1,
            forall|k: int| 0 <= k < r.1@.len() ==> r.1@[k] == v@[k],
{
    let n = v.len();
    (&v[n - 1], vstd::slice::slice_subrange(v.as_slice(), 0, n - 1))
}
#[verifier::external_body]
pub fn value_array(v: Vec<Value>) -> (r: Value) { unimplemented!() }
#[verifier::external_body]
pub fn value_object(v: Vec<(KeyString, Value)>) -> (r: Value) { unimplemented!() }

// ---- assignment ------------------------------------------------------------------------------
pub enum Target { Noop, Internal(Ident, OwnedValuePath), External(OwnedTargetPath) }
impl Target {
    /// identity of an assignment target in the ghost trace
    pub uninterp spec fn tid(self) -> int;
    // contract of assignment::Target::insert: exactly one store/target write, never an error,
    // never a panic. Verified on the real function by the Verus unit v_target_ops (target_insert).
    #[verifier::external_body]
    pub fn insert(&self, value: Value, ctx: &mut Context)
        ensures final(ctx).trace@ == old(ctx).trace@.push(Ev::Write(self.tid(), value)),
    { unimplemented!() }
}
pub enum Variant {
    Single { target: Target, expr: Box<Expr> },
    Infallible { ok: Target, err: Target, expr: Box<Expr>, default: Value },
}
impl ExpressionError {
    // `Value::from(error.to_string())`
    #[verifier::external_body]
    pub fn to_message_value(&self) -> (r: Value) ensures r is Bytes { unimplemented!() }
}

// ---- function call -----------------------------------------------------------------------------
pub struct DynExpr { pub id: Ghost<int> }
impl DynExpr {
    #[verifier::external_body]
    pub fn resolve(&self, ctx: &mut Context) -> (r: Resolved)
        ensures final(ctx).trace@ == old(ctx).trace@.push(Ev::Eval(self.id@, r)),
    { unimplemented!() }
}
pub struct FunctionCall { pub expr: Box<DynExpr>, pub span: Span, pub ident: Str }
pub struct Label { pub id: u64 }
impl Label {
    #[verifier::external_body]
    pub fn primary(m: Msg, s: Span) -> (r: Label) { unimplemented!() }
}
impl Msg {
    #[verifier::external_body]
    pub fn clone(&self) -> (r: Msg) ensures r == *self { unimplemented!() }
}
impl Opaque {
    #[verifier::external_body]
    pub fn push(&mut self, l: Label) { unimplemented!() }
}
#[verifier::external_body]
pub fn opaque_msg() -> (r: Msg) { unimplemented!() }
#[verifier::external_body]
pub fn opaque_list() -> (r: Opaque) { unimplemented!() }
