// ---- prelude for the byte-wise Chars iterator of src/stdlib/starts_with.rs
global size_of usize == 8;
pub struct Bytes { pub b: Ghost<Seq<u8>> }
impl Bytes {
    #[verifier::external_body] pub fn len(&self) -> (r: usize) ensures r == self.b@.len(), r <= isize::MAX { unimplemented!() }
    // bytes[i]: panics unless i < len
    #[verifier::external_body] pub fn at(&self, i: usize) -> (r: u8) requires i < self.b@.len() ensures r == self.b@[i as int] { unimplemented!() }
}
pub struct StrSlice { pub id: u64 }
// std::str::from_utf8(&bytes[from..to]): the slice panics unless from <= to <= len
#[verifier::external_body] pub fn from_utf8_range(bytes: &Bytes, from: usize, to: usize) -> (r: Result<StrSlice, ()>)
    requires from <= to <= bytes.b@.len() { unimplemented!() }
#[verifier::external_body] pub fn first_char(s: &StrSlice) -> (r: Option<char>) { unimplemented!() }
// utf8_width::get_width: 0 for a byte that cannot start a sequence, otherwise 1..=4
#[verifier::external_body] pub fn get_width(b: u8) -> (r: usize) ensures r <= 4 { unimplemented!() }
pub struct Chars<'a> { pub bytes: &'a Bytes, pub pos: usize }
