// ---- prelude for the collection laws of C28: stdlib slice (src/stdlib/slice.rs), length
// (src/stdlib/length.rs) and merge_maps (src/stdlib/merge.rs)
global size_of usize == 8;   // 64-bit target
pub struct Opaque { pub id: u64 }
// bytes::Bytes as its byte sequence
pub struct Bytes { pub b: Ghost<Seq<u8>> }
impl Bytes {
    #[verifier::external_body] pub fn len(&self) -> (r: usize) ensures r == self.b@.len() { unimplemented!() }
    // Bytes::slice(range): the sub-sequence [start, end); panics unless start <= end <= len
    #[verifier::external_body] pub fn slice(&self, range: core::ops::Range<usize>) -> (r: Bytes)
        requires range.start <= range.end <= self.b@.len()
        ensures r.b@ == self.b@.subrange(range.start as int, range.end as int) { unimplemented!() }
}
// object keys (KeyString): identified by an abstract id; clone is the identity
pub struct Key { pub id: u64 }
impl Clone for Key { #[verifier::external_body] fn clone(&self) -> (r: Self) ensures r == *self { unimplemented!() } }
// BTreeMap<KeyString, Value> as a finite map
pub struct ObjectMap { pub m: Ghost<Map<u64, Value>> }
pub enum Value { Bytes(Bytes), Array(Vec<Value>), Object(ObjectMap), Integer(i64), Other(Opaque) }
impl Clone for Value { #[verifier::external_body] fn clone(&self) -> (r: Self) ensures r == *self { unimplemented!() } }
pub enum ExpressionError { Msg(Opaque), Expected(Opaque) }
pub type Resolved = Result<Value, ExpressionError>;
pub type ExpressionResult<T> = Result<T, ExpressionError>;
pub trait IntoValue { spec fn spec_into_value(self) -> Value where Self: Sized; fn into_value(self) -> (r: Value) where Self: Sized ensures r == self.spec_into_value(); }
impl IntoValue for Bytes { open spec fn spec_into_value(self) -> Value { Value::Bytes(self) } fn into_value(self) -> (r: Value) { Value::Bytes(self) } }
impl IntoValue for Vec<Value> { open spec fn spec_into_value(self) -> Value { Value::Array(self) } fn into_value(self) -> (r: Value) { Value::Array(self) } }
// From<usize> for Value: `Value::Integer(v as i64)`
impl IntoValue for usize { open spec fn spec_into_value(self) -> Value { Value::Integer(self as i64) } fn into_value(self) -> (r: Value) { Value::Integer(self as i64) } }
// allocation invariant of std: a Vec / Bytes / BTreeMap length never exceeds isize::MAX, so `len as i64` is the length
#[verifier::external_body] pub fn len_i64(n: usize) -> (r: i64) ensures r == n, r >= 0 { unimplemented!() }
#[verifier::external_body] pub fn err_msg() -> (r: ExpressionError) { unimplemented!() }
#[verifier::external_body] pub fn err_expected(v: Value) -> (r: ExpressionError) { unimplemented!() }
// Vec::drain(range).collect::<Vec<_>>(): the removed sub-sequence, in order; panics unless start <= end <= len
#[verifier::external_body] pub fn vec_drain_collect(v: &mut Vec<Value>, range: core::ops::Range<usize>) -> (r: Vec<Value>)
    requires range.start <= range.end <= old(v)@.len()
    ensures r@ == old(v)@.subrange(range.start as int, range.end as int) { unimplemented!() }

// positional indexing with negative positions counted from the end
pub open spec fn norm(i: int, len: int) -> int { if i < 0 { i + len } else { i } }
pub open spec fn spec_range(start: i64, end: Option<i64>, len: int) -> Option<(int, int)> {
    let s = norm(start as int, len);
    let e = match end { Some(e) => norm(e as int, len), None => len };
    if s < 0 || s > len { None } else if e < s { None } else if e > len { Some((s, len)) } else { Some((s, e)) }
}

pub open spec fn entries_of(e: Seq<(&Key, &Value)>, m: Map<u64, Value>) -> bool {
    &&& forall|i: int| 0 <= i < e.len() ==> m.dom().contains((#[trigger] e[i]).0.id) && m[e[i].0.id] == *e[i].1
    &&& forall|i: int, j: int| 0 <= i < j < e.len() ==> (#[trigger] e[i]).0.id != (#[trigger] e[j]).0.id
    &&& forall|id: u64| m.dom().contains(id) ==> exists|i: int| 0 <= i < e.len() && (#[trigger] e[i]).0.id == id
}
impl ObjectMap {
    #[verifier::external_body] pub fn len(&self) -> (r: usize) ensures r == self.m@.dom().len(), self.m@.dom().finite() { unimplemented!() }
    #[verifier::external_body]
    pub fn get_mut(&mut self, k: &Key) -> (r: Option<&mut Value>)
        ensures match r {
            Some(d) => old(self).m@.dom().contains(k.id) && *d == old(self).m@[k.id] && final(self).m@ == old(self).m@.insert(k.id, *final(d)),
            None => !old(self).m@.dom().contains(k.id) && final(self).m@ == old(self).m@,
        },
    { unimplemented!() }
    #[verifier::external_body]
    pub fn insert(&mut self, k: Key, d: Value) -> (r: Option<Value>)
        ensures final(self).m@ == old(self).m@.insert(k.id, d),
    { unimplemented!() }
    // `for (k, v) in &map`: every entry exactly once, in some order
    #[verifier::external_body]
    pub fn ref_entries(&self) -> (r: Vec<(&Key, &Value)>)
        ensures entries_of(r@, self.m@),
    { unimplemented!() }
}
// merge law, to every nesting depth d: keys are the union; a key only in `to` keeps its value; a key in `from`
// takes from's value, except that on a deep merge two objects under the same key are merged recursively
pub open spec fn merged_key(r: Map<u64, Value>, m1: Map<u64, Value>, m2: Map<u64, Value>, deep: bool, d: nat, k: u64) -> bool decreases d, 0int {
    if !m2.dom().contains(k) { r[k] == m1[k] }
    else if deep && m1.dom().contains(k) && m1[k] is Object && m2[k] is Object {
        r[k] is Object && (d > 0 ==> merged(r[k]->Object_0.m@, m1[k]->Object_0.m@, m2[k]->Object_0.m@, deep, (d - 1) as nat))
    } else { r[k] == m2[k] }
}
pub open spec fn merged(r: Map<u64, Value>, m1: Map<u64, Value>, m2: Map<u64, Value>, deep: bool, d: nat) -> bool decreases d, 1int {
    &&& forall|k: u64| (#[trigger] r.dom().contains(k)) == (m1.dom().contains(k) || m2.dom().contains(k))
    &&& forall|k: u64| (#[trigger] r.dom().contains(k)) ==> merged_key(r, m1, m2, deep, d, k)
}
pub open spec fn merged_at(r: Map<u64, Value>, m1: Map<u64, Value>, m2: Map<u64, Value>, deep: bool, k: u64) -> bool {
    forall|d: nat| merged_key(r, m1, m2, deep, d, k)
}
