// ---- prelude for compile-time constant knowledge (C12): src/compiler/type_def.rs (Details),
//      expression/variable.rs, expression/assignment.rs (insert_type_def), expression/op.rs
//      (resolve_constant), stdlib/del.rs (DelFn::type_info)
// Kinds / type definitions are opaque: only the *constant* component of Details matters here.
#[derive(PartialEq, Eq, Structural)]
pub struct TypeDef { pub id: u64 }
impl Clone for TypeDef {
    #[verifier::external_body]
    fn clone(&self) -> (r: Self) ensures r == *self { unimplemented!() }
}
impl TypeDef {
    #[verifier::external_body] pub fn never() -> (r: TypeDef) { unimplemented!() }
    pub uninterp spec fn spec_undefined() -> TypeDef;
    #[verifier::external_body] pub fn undefined() -> (r: TypeDef) ensures r == Self::spec_undefined() { unimplemented!() }
    pub uninterp spec fn spec_infallible(self) -> TypeDef;
    #[verifier::external_body] pub fn infallible(self) -> (r: TypeDef) ensures r == self.spec_infallible() { unimplemented!() }
    #[verifier::external_body] pub fn with_type_inserted(self, path: &OwnedValuePath, other: TypeDef) -> (r: TypeDef) { unimplemented!() }
    #[verifier::external_body] pub fn union(self, other: TypeDef) -> (r: TypeDef) { unimplemented!() }
    #[verifier::external_body] pub fn remove(&mut self, path: &OwnedValuePath, compact: bool) { unimplemented!() }
    #[verifier::external_body] pub fn impure(self) -> (r: TypeDef) { unimplemented!() }
    #[verifier::external_body] pub fn kind(&self) -> (r: &KindObj) { unimplemented!() }
}
#[derive(PartialEq, Eq, Structural)]
pub struct KindObj { pub id: u64 }
impl Clone for KindObj {
    #[verifier::external_body]
    fn clone(&self) -> (r: Self) ensures r == *self { unimplemented!() }
}
impl KindObj {
    #[verifier::external_body] pub fn insert(&mut self, path: &OwnedValuePath, k: KindObj) { unimplemented!() }
    #[verifier::external_body] pub fn remove(&mut self, path: &OwnedValuePath, compact: bool) { unimplemented!() }
    #[verifier::external_body] pub fn union(self, o: KindObj) -> (r: KindObj) { unimplemented!() }
}
pub struct Details { pub type_def: TypeDef, pub value: Option<Value> }
impl Clone for Details {
    #[verifier::external_body]
    fn clone(&self) -> (r: Self) ensures r == *self { unimplemented!() }
}

// LocalEnv.bindings: HashMap<Ident, Details> as a ghost map (ident id -> Details) with the std
// HashMap contracts of get / get_mut / insert / consuming iteration
pub struct BindMap { pub m: Ghost<Map<u64, Details>> }
impl Clone for BindMap {
    #[verifier::external_body]
    fn clone(&self) -> (r: Self) ensures r == *self { unimplemented!() }
}
pub open spec fn entries_of(e: Seq<(Ident, Details)>, m: Map<u64, Details>) -> bool {
    &&& forall|i: int| 0 <= i < e.len() ==> m.dom().contains((#[trigger] e[i]).0.id) && m[e[i].0.id] == e[i].1
    &&& forall|i: int, j: int| 0 <= i < j < e.len() ==> (#[trigger] e[i]).0.id != (#[trigger] e[j]).0.id
    &&& forall|id: u64| m.dom().contains(id) ==> exists|i: int| 0 <= i < e.len() && (#[trigger] e[i]).0.id == id
}
impl BindMap {
    #[verifier::external_body]
    pub fn get_mut(&mut self, k: &Ident) -> (r: Option<&mut Details>)
        ensures match r {
            Some(d) => old(self).m@.dom().contains(k.id) && *d == old(self).m@[k.id] && final(self).m@ == old(self).m@.insert(k.id, *final(d)),
            None => !old(self).m@.dom().contains(k.id) && final(self).m@ == old(self).m@,
        },
    { unimplemented!() }
    #[verifier::external_body]
    pub fn insert(&mut self, k: Ident, d: Details) -> (r: Option<Details>)
        ensures final(self).m@ == old(self).m@.insert(k.id, d),
    { unimplemented!() }
    // `for (ident, details) in map` : every entry exactly once, in some order
    #[verifier::external_body]
    pub fn into_entries(self) -> (r: Vec<(Ident, Details)>)
        ensures entries_of(r@, self.m@),
    { unimplemented!() }
}
pub struct LocalEnv { pub bindings: BindMap }
pub open spec fn binding(l: LocalEnv, id: u64) -> Option<Details> {
    if l.bindings.m@.dom().contains(id) { Some(l.bindings.m@[id]) } else { None }
}
impl Clone for LocalEnv {
    #[verifier::external_body]
    fn clone(&self) -> (r: Self) ensures r == *self { unimplemented!() }
}
pub open spec fn opt_details(o: Option<&Details>) -> Option<Details> { match o { Some(d) => Some(*d), None => None } }
impl LocalEnv {
    // HashMap::get / HashMap::insert
    #[verifier::external_body]
    pub fn variable(&self, ident: &Ident) -> (r: Option<&Details>)
        ensures opt_details(r) == binding(*self, ident.id),
    { unimplemented!() }
    #[verifier::external_body]
    pub fn insert_variable(&mut self, ident: Ident, details: Details)
        ensures final(self).bindings.m@ == old(self).bindings.m@.insert(ident.id, details),
    { unimplemented!() }
}
pub open spec fn const_of_local(l: LocalEnv, id: u64) -> Option<Value> { opt_const(binding(l, id)) }
pub open spec fn opt_const(o: Option<Details>) -> Option<Value> { match o { Some(d) => d.value, None => None } }
pub struct ExternalEnv { pub target: Details, pub metadata: KindObj }
impl Clone for ExternalEnv {
    #[verifier::external_body]
    fn clone(&self) -> (r: Self) ensures r == *self { unimplemented!() }
}
impl ExternalEnv {
    pub fn target(&self) -> (r: &Details) ensures *r == self.target { &self.target }
    pub fn metadata_kind(&self) -> (r: &KindObj) ensures *r == self.metadata { &self.metadata }
    pub fn update_target(&mut self, details: Details) ensures final(self).target == details, final(self).metadata == old(self).metadata { self.target = details; }
    pub fn update_metadata(&mut self, kind: KindObj) ensures final(self).metadata == kind, final(self).target == old(self).target { self.metadata = kind; }
    #[verifier::external_body]
    pub fn merge(self, other: ExternalEnv) -> (r: ExternalEnv) { unimplemented!() }
}
pub struct TypeState { pub local: LocalEnv, pub external: ExternalEnv }
impl Clone for TypeState {
    #[verifier::external_body]
    fn clone(&self) -> (r: Self) ensures r == *self { unimplemented!() }
}
pub struct TypeInfo { pub state: TypeState, pub result: TypeDef }
impl TypeInfo {
    pub fn new(state: TypeState, result: TypeDef) -> (r: TypeInfo) ensures r.state == state, r.result == result { TypeInfo { state, result } }
}

/// the compile-time constant the state holds for a variable
pub open spec fn const_of(s: TypeState, id: u64) -> Option<Value> {
    match binding(s.local, id) { Some(d) => d.value, None => None }
}
/// every constant the type state claims for a variable is the value the runtime store holds
pub open spec fn agrees(s: TypeState, store: Map<u64, Value>) -> bool {
    forall|id: u64| (#[trigger] const_of(s, id)) is Some ==> store.dom().contains(id) && store[id] == const_of(s, id)->Some_0
}

// ---- assignment target (compile-time side)
pub enum ATarget { Noop, Internal(Ident, OwnedValuePath), External(OwnedTargetPath) }

// ---- variable expression
pub struct Variable { pub ident: Ident }
impl Variable {
    pub fn ident(&self) -> (r: &Ident) ensures *r == self.ident { &self.ident }
}

// ---- del
pub struct DynExprC { pub id: Ghost<int> }
impl DynExprC {
    #[verifier::external_body]
    pub fn resolve_constant(&self, state: &TypeState) -> (r: Option<Value>) { unimplemented!() }
}
impl Value {
    #[verifier::external_body]
    pub fn as_boolean(&self) -> (r: Option<bool>) { unimplemented!() }
}
pub struct QueryC { pub local_ident: Option<Ident>, pub path: OwnedValuePath, pub id: Ghost<int> }
impl QueryC {
    // Query::type_info for a query that is only *read*: the local bindings are unchanged
    #[verifier::external_body]
    pub fn apply_type_info(&self, state: &mut TypeState) -> (r: TypeDef)
        ensures final(state).local == old(state).local,
    { unimplemented!() }
    // contract of Query::delete_type_def as written (src/compiler/expression/query.rs): it only
    // receives the external environment
    #[verifier::external_body]
    pub fn delete_type_def(&self, external: &mut ExternalEnv, compact: bool) { unimplemented!() }
    #[verifier::external_body]
    pub fn variable_ident(&self) -> (r: Option<&Ident>)
        ensures match r { Some(i) => self.local_ident == Some(*i), None => self.local_ident is None },
    { unimplemented!() }
    pub fn path(&self) -> (r: &OwnedValuePath) ensures *r == self.path { &self.path }
}
pub struct DelFn { pub query: QueryC, pub compact: Option<Box<DynExprC>> }
#[verifier::external_body]
pub fn values_equal(a: &Option<Value>, b: &Option<Value>) -> (r: bool) ensures r == (*a == *b) { unimplemented!() }

// ---- constant folding of binary operators (needs nodes.rs + op.rs in the same unit)
pub uninterp spec fn spec_is_float(v: Value) -> bool;
