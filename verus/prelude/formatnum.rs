// ---- prelude for stdlib format_number (src/stdlib/format_number.rs): strings as sequences of chars
global size_of usize == 8;   // 64-bit target
pub struct Opaque { pub id: u64 }
pub struct F64W { pub id: u64 }     // a non-NaN f64 (possibly infinite, possibly beyond the Decimal range)
pub struct NotNanF64 { pub id: u64 }
impl NotNanF64 {
    #[verifier::external_body] pub fn into_inner(&self) -> (r: F64W) { unimplemented!() }
    // Display of an f64 never uses an exponent: digits with at most one '.', or inf / -inf
    #[verifier::external_body] pub fn to_string(&self) -> (r: Str) ensures one_dot(r.s@) { unimplemented!() }
}
pub struct Decimal { pub id: u64 }
impl Decimal {
    // rust_decimal: FromPrimitive::from_f64 answers None for non-finite values and values outside +-7.9e28
    #[verifier::external_body] pub fn from_f64(f: F64W) -> (r: Option<Decimal>) { unimplemented!() }
    #[verifier::external_body] pub fn from_i64(v: i64) -> (r: Decimal) { unimplemented!() }
    // Display of a Decimal: digits with at most one '.'
    #[verifier::external_body] pub fn to_string(&self) -> (r: Str) ensures one_dot(r.s@) { unimplemented!() }
}
// "the text has at most one '.'" (so split('.') gives one or two parts)
pub uninterp spec fn one_dot(s: Seq<char>) -> bool;
pub struct Str { pub s: Ghost<Seq<char>> }
impl Str {
    #[verifier::external_body] pub fn new() -> (r: Str) ensures r.s@.len() == 0 { unimplemented!() }
    #[verifier::external_body] pub fn len(&self) -> (r: usize) ensures r == self.s@.len() { unimplemented!() }
    #[verifier::external_body] pub fn push(&mut self, c: char) ensures final(self).s@ == old(self).s@.push(c) { unimplemented!() }
    #[verifier::external_body] pub fn truncate(&mut self, n: usize) ensures final(self).s@ == (if n < old(self).s@.len() { old(self).s@.subrange(0, n as int) } else { old(self).s@ }) { unimplemented!() }
}
pub struct Bytes { pub b: Ghost<Seq<u8>> }
// the value built by the final join: its parts and separator are kept so the contract can talk about them
pub struct Joined { pub parts: Ghost<Seq<Seq<char>>>, pub sep: Ghost<Seq<u8>> }
pub enum Value { Integer(i64), Float(NotNanF64), Bytes(Bytes), Text(Joined), Other(Opaque) }
pub enum ExpressionError { Msg(Opaque), Expected(Opaque) }
pub type Resolved = Result<Value, ExpressionError>;
impl Value {
    #[verifier::external_body] pub fn try_integer(self) -> (r: Result<i64, ExpressionError>) ensures (match self { Value::Integer(i) => r == Ok::<i64, ExpressionError>(i), _ => r is Err }) { unimplemented!() }
    #[verifier::external_body] pub fn try_bytes(self) -> (r: Result<Bytes, ExpressionError>) ensures (match self { Value::Bytes(b) => r == Ok::<Bytes, ExpressionError>(b), _ => r is Err }) { unimplemented!() }
}
#[verifier::external_body] pub fn err_expected(v: Value) -> (r: ExpressionError) { unimplemented!() }
pub open spec fn strs(v: Seq<Str>) -> Seq<Seq<char>> { Seq::new(v.len(), |i: int| v[i].s@) }
// str::split('.').map(ToOwned::to_owned).collect::<Vec<String>>(): at least one part; two at most when there is at most one '.'
pub trait DotParts { fn dot_parts(&self) -> (r: Vec<Str>); }
impl DotParts for Str { #[verifier::external_body] fn dot_parts(&self) -> (r: Vec<Str>) ensures r@.len() >= 1, one_dot(self.s@) ==> r@.len() <= 2 { unimplemented!() } }
impl DotParts for Decimal { #[verifier::external_body] fn dot_parts(&self) -> (r: Vec<Str>) ensures 1 <= r@.len() <= 2 { unimplemented!() } }
// grouping section (chars/skip/enumerate/filter + insert_str): NOT verified; it only touches the integral part
#[verifier::external_body] pub fn apply_grouping(parts: &mut Vec<Str>, sep: &Option<Bytes>)
    requires old(parts)@.len() >= 1
    ensures final(parts)@.len() == old(parts)@.len(), forall|i: int| 1 <= i < old(parts)@.len() ==> final(parts)@[i] == old(parts)@[i],
            sep is None ==> final(parts)@ == old(parts)@ { unimplemented!() }
#[verifier::external_body] pub fn join_parts(parts: &Vec<Str>, sep: &Bytes) -> (r: Value)
    ensures r is Text, r->Text_0.parts@ == strs(parts@), r->Text_0.sep@ == sep.b@ { unimplemented!() }
