// ---- prelude for Unknown::merge, Infinite::merge, Infinite::covering (src/value/kind/collection/unknown.rs)
// An element value is abstract; what matters is the set of type tags occurring anywhere in it
// (at the top or nested), because an infinite unknown kind admits a value iff every tag occurring
// in it is one of its states.
pub spec const T_BYTES: int = 1;
pub spec const T_INTEGER: int = 2;
pub spec const T_FLOAT: int = 3;
pub spec const T_BOOLEAN: int = 4;
pub spec const T_TIMESTAMP: int = 5;
pub spec const T_REGEX: int = 6;
pub spec const T_NULL: int = 7;
pub spec const T_ARRAY: int = 9;
pub spec const T_OBJECT: int = 10;
pub struct ElemValue { pub id: int }
pub uninterp spec fn tags(v: ElemValue) -> Set<int>;
pub open spec fn valid_tag(t: int) -> bool { t == T_BYTES || t == T_INTEGER || t == T_FLOAT || t == T_BOOLEAN || t == T_TIMESTAMP || t == T_REGEX || t == T_NULL || t == T_ARRAY || t == T_OBJECT }
// every tag of a value is one of the nine kinds of value
pub broadcast axiom fn axiom_tags_valid(v: ElemValue, t: int) ensures #[trigger] tags(v).contains(t) ==> valid_tag(t);

#[derive(Clone, Copy, PartialEq, Eq, Structural)]
pub struct Unit {}
#[derive(Clone, Copy)]
pub struct Infinite {
    pub bytes: Option<Unit>, pub integer: Option<Unit>, pub float: Option<Unit>, pub boolean: Option<Unit>, pub timestamp: Option<Unit>,
    pub regex: Option<Unit>, pub null: Option<Unit>, pub array: Option<Unit>, pub object: Option<Unit>,
}
pub open spec fn has_state(i: Infinite, t: int) -> bool {
    (t == T_BYTES && i.bytes is Some) || (t == T_INTEGER && i.integer is Some) || (t == T_FLOAT && i.float is Some) || (t == T_BOOLEAN && i.boolean is Some)
    || (t == T_TIMESTAMP && i.timestamp is Some) || (t == T_REGEX && i.regex is Some) || (t == T_NULL && i.null is Some) || (t == T_ARRAY && i.array is Some) || (t == T_OBJECT && i.object is Some)
}
pub open spec fn inf_member(v: ElemValue, i: Infinite) -> bool { forall|t: int| #[trigger] tags(v).contains(t) ==> has_state(i, t) }
pub assume_specification<T>[ Option::<T>::or ](a: Option<T>, b: Option<T>) -> (r: Option<T>)
    ensures r == (match a { Some(x) => Some(x), None => b });

// Kind is abstract here; its own merge is the contract proved in v_kind_merge / assumed for collections
pub struct Kind { pub id: int }
pub uninterp spec fn kind_member(v: ElemValue, k: Kind) -> bool;
pub uninterp spec fn spec_kind_merge(a: Kind, b: Kind, overwrite: bool) -> Kind;
pub uninterp spec fn spec_kind_from_infinite(i: Infinite) -> Kind;
pub uninterp spec fn spec_without_undefined(k: Kind) -> Kind;
impl Clone for Kind { #[verifier::external_body] fn clone(&self) -> (r: Self) ensures r == *self { unimplemented!() } }
pub struct Path { pub id: int }
impl Kind {
    #[verifier::external_body] pub fn merge_keep(&mut self, other: Kind, overwrite: bool)
        ensures *final(self) == spec_kind_merge(*old(self), other, overwrite),
                !overwrite ==> forall|v: ElemValue| (kind_member(v, *old(self)) || kind_member(v, other)) ==> #[trigger] kind_member(v, *final(self)) { unimplemented!() }
    // From<Infinite> for Kind: the kind with the same states, nested collections again of that infinite kind
    #[verifier::external_body] pub fn from(i: Infinite) -> (r: Kind)
        ensures r == spec_kind_from_infinite(i), forall|v: ElemValue| #![trigger kind_member(v, r)] #![trigger inf_member(v, i)] kind_member(v, r) == inf_member(v, i) { unimplemented!() }
    // a value is never `undefined`: dropping that state changes no membership
    #[verifier::external_body] pub fn without_undefined(self) -> (r: Kind)
        ensures r == spec_without_undefined(self), forall|v: ElemValue| #![trigger kind_member(v, r)] #![trigger kind_member(v, self)] kind_member(v, r) == kind_member(v, self) { unimplemented!() }
    // soundness of the subtype test (the direction used here): Ok means inclusion
    #[verifier::external_body] pub fn is_superset(&self, other: &Kind) -> (r: Result<(), Path>)
        ensures r is Ok ==> forall|v: ElemValue| #![trigger kind_member(v, *other)] #![trigger kind_member(v, *self)] kind_member(v, *other) ==> kind_member(v, *self) { unimplemented!() }
}
pub enum Inner { Exact(Box<Kind>), Infinite(Infinite) }
pub struct Unknown(pub Inner);
pub open spec fn unknown_member(v: ElemValue, u: Unknown) -> bool {
    match u.0 { Inner::Exact(k) => kind_member(v, *k), Inner::Infinite(i) => inf_member(v, i) }
}
