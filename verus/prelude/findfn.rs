// ---- prelude for FindFn::{find_regex_in_str, find_bytes_in_bytes} (src/stdlib/find.rs)
global size_of usize == 8;
pub struct Bytes { pub b: Ghost<Seq<u8>> }
pub struct BytesSlice { pub b: Ghost<Seq<u8>> }
impl Bytes {
    // allocation bound of std: a buffer never exceeds isize::MAX bytes
    #[verifier::external_body] pub fn len(&self) -> (r: usize) ensures r == self.b@.len(), r <= isize::MAX { unimplemented!() }
    // value[from..to] through Deref<[u8]>: panics unless from <= to <= len
    #[verifier::external_body] pub fn range(&self, from: usize, to: usize) -> (r: BytesSlice)
        requires from <= to <= self.b@.len() ensures r.b@ == self.b@.subrange(from as int, to as int) { unimplemented!() }
    #[verifier::external_body] pub fn as_slice(&self) -> (r: BytesSlice) ensures r.b@ == self.b@ { unimplemented!() }
}
#[verifier::external_body] pub fn slice_eq(a: BytesSlice, b: BytesSlice) -> (r: bool) ensures r == (a.b@ == b.b@) { unimplemented!() }
pub open spec fn occurs_at(v: Seq<u8>, p: Seq<u8>, i: int) -> bool { 0 <= i && i + p.len() <= v.len() && v.subrange(i, i + p.len()) == p }
// a str as its UTF-8 bytes
pub struct Str { pub b: Ghost<Seq<u8>> }
impl Str { #[verifier::external_body] pub fn len(&self) -> (r: usize) ensures r == self.b@.len() { unimplemented!() } }
pub struct Match { pub start: usize }
impl Match { pub fn start(&self) -> (r: usize) ensures r == self.start { self.start } }
pub struct ValueRegex { pub id: u64 }
impl ValueRegex {
    // regex::Regex::find_at: "Panics if start > haystack.len()"; a match, if any, starts at or after `start`
    #[verifier::external_body] pub fn find_at(&self, haystack: &Str, start: usize) -> (r: Option<Match>)
        requires start <= haystack.b@.len()
        ensures r is Some ==> start <= r->Some_0.start <= haystack.b@.len() { unimplemented!() }
}
