// ---- prelude for the comparison helpers try_gt / try_ge / try_lt / try_le
//      (src/compiler/value/arithmetic.rs): strings, timestamps, integers
pub struct Opaque { pub id: u64 }
pub struct KindObj { pub id: u64 }
pub struct F64W { pub id: u64 }
pub struct Bytes { pub b: Ghost<Seq<u8>> }
pub struct Ts { pub secs: Ghost<int>, pub nanos: Ghost<int> }     // DateTime<Utc>
pub enum Value { Bytes(Bytes), Integer(i64), Float(F64W), Timestamp(Ts), Boolean(bool), Null, Other(Opaque) }
pub enum ValueError { Expected(KindObj, KindObj), Rem(KindObj, KindObj), Ge(KindObj, KindObj), Gt(KindObj, KindObj), Lt(KindObj, KindObj), Le(KindObj, KindObj), Other(Opaque) }
impl Value {
    #[verifier::external_body] pub fn kind(&self) -> (r: KindObj) { unimplemented!() }
    // VrlValueConvert::try_bytes / try_timestamp (convert.rs): the payload, or an Expected error
    #[verifier::external_body] pub fn try_bytes(self) -> (r: Result<Bytes, ValueError>)
        ensures match self { Value::Bytes(b) => r == Ok::<Bytes, ValueError>(b), _ => r is Err } { unimplemented!() }
    #[verifier::external_body] pub fn try_timestamp(self) -> (r: Result<Ts, ValueError>)
        ensures match self { Value::Timestamp(t) => r == Ok::<Ts, ValueError>(t), _ => r is Err } { unimplemented!() }
}
/// std's lexicographic order on byte strings and chronological order on timestamps (std / chrono `Ord`)
pub open spec fn bytes_lt(a: Seq<u8>, b: Seq<u8>) -> bool
    decreases a.len()
{
    if b.len() == 0 { false } else if a.len() == 0 { true } else if a[0] != b[0] { a[0] < b[0] } else { bytes_lt(a.drop_first(), b.drop_first()) }
}
pub open spec fn ts_lt(a: Ts, b: Ts) -> bool { a.secs@ < b.secs@ || (a.secs@ == b.secs@ && a.nanos@ < b.nanos@) }
pub open spec fn ts_eq(a: Ts, b: Ts) -> bool { a.secs@ == b.secs@ && a.nanos@ == b.nanos@ }
// the four std comparison operators on Bytes / DateTime<Utc>, by their Ord definitions
#[verifier::external_body] pub fn bytes_gt(a: &Bytes, b: &Bytes) -> (r: bool) ensures r == bytes_lt(b.b@, a.b@) { unimplemented!() }
#[verifier::external_body] pub fn bytes_ge(a: &Bytes, b: &Bytes) -> (r: bool) ensures r == !bytes_lt(a.b@, b.b@) { unimplemented!() }
#[verifier::external_body] pub fn bytes_lt_x(a: &Bytes, b: &Bytes) -> (r: bool) ensures r == bytes_lt(a.b@, b.b@) { unimplemented!() }
#[verifier::external_body] pub fn bytes_le(a: &Bytes, b: &Bytes) -> (r: bool) ensures r == !bytes_lt(b.b@, a.b@) { unimplemented!() }
#[verifier::external_body] pub fn ts_gt(a: &Ts, b: &Ts) -> (r: bool) ensures r == ts_lt(*b, *a) { unimplemented!() }
#[verifier::external_body] pub fn ts_ge(a: &Ts, b: &Ts) -> (r: bool) ensures r == !ts_lt(*a, *b) { unimplemented!() }
#[verifier::external_body] pub fn ts_lt_x(a: &Ts, b: &Ts) -> (r: bool) ensures r == ts_lt(*a, *b) { unimplemented!() }
#[verifier::external_body] pub fn ts_le(a: &Ts, b: &Ts) -> (r: bool) ensures r == !ts_lt(*b, *a) { unimplemented!() }
// float arms: decided bit-precisely by the C10 Kani units; opaque here
#[verifier::external_body] pub fn float_cmp_if(op: u8, l: i64, r: F64W) -> (o: bool) { unimplemented!() }
#[verifier::external_body] pub fn float_cmp_fi(op: u8, l: F64W, r: i64) -> (o: bool) { unimplemented!() }
#[verifier::external_body] pub fn float_cmp_ff(op: u8, l: F64W, r: F64W) -> (o: bool) { unimplemented!() }
