// ---- prelude for the stdlib callers of closure::Runner (for_each, map_keys, map_values) ------------
// The items an iteration hands to the closure are `&'a mut` borrows into the iterated collection
// (IterItem<'a>); the scoping property does not depend on them, so they are opaque handles here.
pub struct ItemKey { pub id: u64 }
pub struct ItemVal { pub id: u64 }
pub enum IterItem { Value(ItemVal), KeyValue(ItemKey, ItemVal), IndexValue(usize, ItemVal) }
pub struct ValueIter { pub left: Ghost<nat>, pub id: u64 }
impl Value {
    // Value::into_iter(recursive): some finite iteration (ValueIter::next is assumed to terminate)
    #[verifier::external_body]
    pub fn into_iter(self, recursive: bool) -> (r: ValueIter) { unimplemented!() }
}
impl ValueIter {
    #[verifier::external_body]
    pub fn next(&mut self) -> (r: Option<IterItem>)
        ensures r is Some ==> final(self).left@ < old(self).left@,
    { unimplemented!() }
    #[verifier::external_body]
    pub fn into_value(self) -> (r: Value) { unimplemented!() }
}
// what the iterations of one call did, as seen from the caller: the events appended to the trace
pub open spec fn only_closure_runs(pre: Seq<Ev>, post: Seq<Ev>) -> bool {
    pre.len() <= post.len() && (forall|k: int| 0 <= k < pre.len() ==> (#[trigger] post[k]) == pre[k])
    && forall|k: int| pre.len() <= k < post.len() ==> (#[trigger] post[k]) is RunClosure
}
// every iteration but the last one ended normally (value or `return`): an error stops the loop at once
pub open spec fn earlier_runs_ok(pre: Seq<Ev>, post: Seq<Ev>) -> bool {
    forall|k: int| pre.len() <= k < post.len() - 1 ==> iteration_value((#[trigger] post[k])->RunClosure_0) is Ok
}
pub open spec fn all_runs_ok(pre: Seq<Ev>, post: Seq<Ev>) -> bool {
    forall|k: int| pre.len() <= k < post.len() ==> iteration_value((#[trigger] post[k])->RunClosure_0) is Ok
}
// The contracts of the four Runner methods used by the callers are GENERATED into the unit from
// runner_ensures() in units.py - the very clause text discharged on their real bodies by v_closure_runner.
pub open spec fn no_abort_runs(pre: Seq<Ev>, post: Seq<Ev>) -> bool {
    forall|k: int| pre.len() <= k < post.len() ==> !(((#[trigger] post[k])->RunClosure_0 is Err) && (post[k]->RunClosure_0->Err_0 is Abort))
}
