// ---- prelude for Op::resolve_constant (uses interp.rs, nodes.rs, op.rs, typestate.rs)
impl Expr {
    /// the constant the compiler derives for a child expression in a given type state
    pub uninterp spec fn spec_const(&self, state: TypeState) -> Option<Value>;
    #[verifier::external_body]
    pub fn resolve_constant(&self, state: &TypeState) -> (r: Option<Value>)
        ensures r == self.spec_const(*state),
    { unimplemented!() }
}
impl Value {
    // is_integer comes from interp.rs
    #[verifier::external_body]
    pub fn is_float(&self) -> (r: bool) ensures r == spec_is_float(*self) { unimplemented!() }
}
pub open spec fn spec_is_number(v: Value) -> bool { v is Integer || spec_is_float(v) }
