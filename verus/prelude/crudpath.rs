// ---- prelude for the recursive path reader src/value/value/crud/get.rs
pub struct KeyId { pub id: u64 }
impl KeyId {
    pub fn as_ref(&self) -> (r: &KeyId) ensures *r == *self { self }
}
pub enum Seg { Field(KeyId), Index(isize), Invalid }
impl Clone for Seg {
    #[verifier::external_body]
    fn clone(&self) -> (r: Self) ensures r == *self { unimplemented!() }
}
pub struct ObjMap { pub m: Ghost<Map<u64, Value>> }
pub enum Value { Null, Integer(i64), Object(ObjMap), Array(Vec<Value>) }

pub open spec fn spec_index(len: int, key: int) -> Option<int> {
    if key >= 0 { Some(key) } else if len + key >= 0 { Some(len + key) } else { None }
}
pub open spec fn spec_elem(s: Seq<Value>, key: int) -> Option<Value> {
    match spec_index(s.len() as int, key) { Some(i) => if i < s.len() { Some(s[i]) } else { None }, None => None }
}
pub open spec fn opt_val(o: Option<&Value>) -> Option<Value> { match o { Some(v) => Some(*v), None => None } }

impl ObjMap {
    // ObjectMap::get_value = BTreeMap::get (std)
    #[verifier::external_body]
    pub fn get_value(&self, key: &KeyId) -> (r: Option<&Value>)
        ensures opt_val(r) == (if self.m@.dom().contains(key.id) { Some(self.m@[key.id]) } else { None::<Value> }),
    { unimplemented!() }
}
// Vec<Value>::get_value: contract verified on the real body by unit v_crud_vec (C18.get_value.spec)
#[verifier::external_body]
pub fn vec_get_value<'a>(this: &'a Vec<Value>, key: &isize) -> (r: Option<&'a Value>)
    ensures opt_val(r) == spec_elem(this@, *key as int),
{ unimplemented!() }

/// reading a path: descend through objects by field and arrays by index; anything else finds nothing
pub open spec fn spec_path_get(v: Value, p: Seq<Seg>) -> Option<Value>
    decreases p.len()
{
    if p.len() == 0 { Some(v) } else {
        match (p[0], v) {
            (Seg::Field(k), Value::Object(m)) => if m.m@.dom().contains(k.id) { spec_path_get(m.m@[k.id], p.drop_first()) } else { None },
            (Seg::Index(i), Value::Array(a)) => match spec_elem(a@, i as int) { Some(x) => spec_path_get(x, p.drop_first()), None => None },
            _ => None,
        }
    }
}
// `impl Iterator<Item = BorrowedSegment>`: a cursor over the path's segments
pub struct PathIter { pub segs: Vec<Seg>, pub pos: usize }
impl PathIter {
    pub open spec fn rest(&self) -> Seq<Seg> { self.segs@.subrange(self.pos as int, self.segs@.len() as int) }
    pub fn next(&mut self) -> (r: Option<Seg>)
        requires old(self).pos <= old(self).segs@.len(),
        ensures final(self).pos <= final(self).segs@.len(), final(self).segs == old(self).segs,
                match r { Some(s) => old(self).rest().len() > 0 && s == old(self).rest()[0] && final(self).rest() == old(self).rest().drop_first(),
                          None => old(self).rest().len() == 0 && final(self).rest() == old(self).rest() },
    {
        if self.pos < self.segs.len() {
            let s = self.segs[self.pos].clone();
            self.pos = self.pos + 1;
            proof { assert(self.rest() =~= old(self).rest().drop_first()); }
            Some(s)
        } else {
            None
        }
    }
}
