// ===================================================================================
// Trusted prelude for interpreter-node units (hand written once; listed in every evidence file).
// Abstract data: message strings, byte strings, collections are opaque payloads.  Ghost state:
//   ctx.vars  : Map<Ident id, Value>    the runtime variable store (RuntimeState.variables)
//   ctx.trace : Seq<Ev>                 every child evaluation (with its outcome) and every
//                                       store/target operation, in order
// Callee contracts below are *assumed* here and discharged on the real callee elsewhere (the
// evidence links the discharging unit); `external_body` items are listed by the scanner.
// ===================================================================================
#[derive(Clone, Copy)]
pub struct Span { pub start: usize, pub end: usize }
pub struct Msg { pub id: u64 }
pub struct Opaque { pub id: u64 }
pub struct Str { pub id: u64 }
pub struct KeyString { pub id: u64 }

pub enum Value { Null, Boolean(bool), Integer(i64), Bytes(Opaque), Other(Opaque) }

impl Value {
    #[verifier::external_body]
    pub fn clone(&self) -> (r: Value)
        ensures r == *self,
    { unimplemented!() }
}

impl Str {
    #[verifier::external_body]
    pub fn to_owned(&self) -> (r: Str) ensures r == *self { unimplemented!() }
    #[verifier::external_body]
    pub fn into_value(self) -> (r: Value) { unimplemented!() }
}
impl KeyString {
    #[verifier::external_body]
    pub fn clone(&self) -> (r: KeyString) ensures r == *self { unimplemented!() }
    #[verifier::external_body]
    pub fn into_value(self) -> (r: Value) { unimplemented!() }
}

pub enum ExpressionError {
    Abort { span: Span, message: Option<Msg> },
    Return { span: Span, value: Value },
    Error { message: Msg, labels: Opaque, notes: Opaque },
    Fallible { span: Span },
    Missing { span: Span, feature: Opaque },
}
pub type Resolved = Result<Value, ExpressionError>;

pub open spec fn is_ctl(e: ExpressionError) -> bool { e is Abort || e is Return }

pub struct Ident { pub id: u64, pub empty: bool }
impl Ident {
    #[verifier::external_body]
    pub fn clone(&self) -> (r: Ident)
        ensures r == *self,
    { unimplemented!() }
    pub fn is_empty(&self) -> (r: bool)
        ensures r == self.empty,
    { self.empty }
}

pub enum Ev {
    Eval(int, Resolved),       // child expression `id` was evaluated with this outcome
    RunClosure(Resolved),      // the closure body ran with this outcome
    VarWrite(u64),             // runtime variable store written by this node (ident id)
    Write(int, Value),         // assignment target `id` (variable or event path) was written with this value
    TargetInsert(int),
    TargetGet(int),
    TargetRemove(int),
}

pub struct RuntimeState { pub vars: Ghost<Map<u64, Value>> }
pub struct Context { pub state: RuntimeState, pub trace: Ghost<Seq<Ev>> }

pub open spec fn lookup(m: Map<u64, Value>, k: u64) -> Option<Value> {
    if m.dom().contains(k) { Some(m[k]) } else { None }
}

impl RuntimeState {
    // contracts of the real RuntimeState::{insert_variable, remove_variable, swap_variable}
    // (HashMap insert / remove / entry-replace); discharged by Kani units k_state_*.
    #[verifier::external_body]
    pub fn insert_variable(&mut self, ident: Ident, value: Value)
        ensures final(self).vars@ == old(self).vars@.insert(ident.id, value),
    { unimplemented!() }
    #[verifier::external_body]
    pub fn remove_variable(&mut self, ident: &Ident)
        ensures final(self).vars@ == old(self).vars@.remove(ident.id),
    { unimplemented!() }
    #[verifier::external_body]
    pub fn swap_variable(&mut self, ident: Ident, value: Value) -> (r: Option<Value>)
        ensures final(self).vars@ == old(self).vars@.insert(ident.id, value),
                r == lookup(old(self).vars@, ident.id),
    { unimplemented!() }
}

impl Context {
    pub fn state_mut(&mut self) -> (r: &mut RuntimeState)
        ensures *r == old(self).state, *final(r) == final(self).state, final(self).trace == old(self).trace,
    { &mut self.state }
}
