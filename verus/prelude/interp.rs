// ===================================================================================
// Trusted prelude for interpreter-node units (hand written once; listed in every evidence file).
// Abstract data: message strings, byte strings, collections are opaque payloads.  Ghost state:
//   ctx.vars  : Map<Ident id, Value>    the runtime variable store (RuntimeState.variables)
//   ctx.trace : Seq<Ev>                 every child evaluation (with its outcome) and every
//                                       store/target operation, in order
// Callee contracts below are *assumed* here and discharged on the real callee elsewhere (the
// evidence links the discharging unit); `external_body` items are listed by the scanner.
// ===================================================================================
#[derive(Clone, Copy)]
pub struct Span { pub start: usize, pub end: usize }
pub struct Msg { pub id: u64 }
pub struct Opaque { pub id: u64 }
#[derive(Debug)]
pub struct Str { pub id: u64 }
pub struct KeyString { pub id: u64 }

pub enum Value { Null, Boolean(bool), Integer(i64), Bytes(Opaque), Other(Opaque) }

impl Clone for Value {
    #[verifier::external_body]
    fn clone(&self) -> (r: Self)
        ensures r == *self,
    { unimplemented!() }
}
// the `is_<kind>` predicates of src/value/value.rs (one-line `matches!`)
impl Value {
    pub fn is_null(&self) -> (r: bool) ensures r == (*self is Null) { matches!(self, Value::Null) }
    pub fn is_boolean(&self) -> (r: bool) ensures r == (*self is Boolean) { matches!(self, Value::Boolean(_)) }
    pub fn is_integer(&self) -> (r: bool) ensures r == (*self is Integer) { matches!(self, Value::Integer(_)) }
    pub fn is_bytes(&self) -> (r: bool) ensures r == (*self is Bytes) { matches!(self, Value::Bytes(_)) }
}

impl Str {
    #[verifier::external_body]
    pub fn to_owned(&self) -> (r: Str) ensures r == *self { unimplemented!() }
}
impl KeyString {
    #[verifier::external_body]
    pub fn clone(&self) -> (r: KeyString) ensures r == *self { unimplemented!() }
}
// `x.into()` where a `Value` is expected: the From<String>/From<KeyString>/From<usize>/From<bool>
// conversions are opaque (their results are never inspected by a contract)
pub trait IntoValue { fn into_value(self) -> Value; }
impl IntoValue for Str { #[verifier::external_body] fn into_value(self) -> Value { unimplemented!() } }
impl IntoValue for KeyString { #[verifier::external_body] fn into_value(self) -> Value { unimplemented!() } }
impl IntoValue for usize { #[verifier::external_body] fn into_value(self) -> Value { unimplemented!() } }

pub enum ExpressionError {
    Abort { span: Span, message: Option<Msg> },
    Return { span: Span, value: Value },
    Error { message: Msg, labels: Opaque, notes: Opaque },
    Fallible { span: Span },
    Missing { span: Span, feature: Opaque },
}
pub type Resolved = Result<Value, ExpressionError>;

pub open spec fn is_ctl(e: ExpressionError) -> bool { e is Abort || e is Return }

pub struct Ident { pub id: u64, pub empty: bool }
impl Ident {
    #[verifier::external_body]
    pub fn clone(&self) -> (r: Ident)
        ensures r == *self,
    { unimplemented!() }
    pub fn is_empty(&self) -> (r: bool)
        ensures r == self.empty,
    { self.empty }
}

pub enum Ev {
    Eval(int, Resolved),       // child expression `id` was evaluated with this outcome
    RunClosure(Resolved),      // the closure body ran with this outcome
    VarWrite(u64),             // runtime variable store written by this node (ident id)
    Write(int, Value),         // assignment target `id` (variable or event path) was written with this value
    TargetInsert(int),
    TargetGet(int),
    TargetRemove(int),
}

pub struct RuntimeState { pub vars: Ghost<Map<u64, Value>> }

// ---- the embedder's event target (`&mut dyn Target`): every outcome is the embedder's choice.
#[derive(Clone, Copy, PartialEq, Eq, Structural)]
pub enum PathPrefix { Event, Metadata }
pub struct OwnedValuePath { pub id: u64, pub root: bool }
impl Clone for OwnedValuePath {
    #[verifier::external_body]
    fn clone(&self) -> (r: Self) ensures r == *self { unimplemented!() }
}
impl OwnedValuePath {
    pub fn is_root(&self) -> (r: bool) ensures r == self.root { self.root }
}
pub struct OwnedTargetPath { pub prefix: PathPrefix, pub path: OwnedValuePath }
pub enum TOp {
    Insert(OwnedTargetPath, Value, Result<(), Str>),
    Remove(OwnedTargetPath, bool, Result<Option<Value>, Str>),
    ProgramRun(Resolved),
}
pub struct TargetObj { pub ops: Ghost<Seq<TOp>> }
impl TargetObj {
    /// what a read of `path` answers in the current target state (Ok(Some), Ok(None) or a fault)
    pub uninterp spec fn spec_get(&self, path: OwnedTargetPath) -> Result<Option<Value>, Str>;
    #[verifier::external_body]
    pub fn target_get(&self, path: &OwnedTargetPath) -> (r: Result<Option<&Value>, Str>)
        ensures (match r {
            Ok(Some(v)) => self.spec_get(*path) == Ok::<Option<Value>, Str>(Some(*v)),
            Ok(None) => self.spec_get(*path) == Ok::<Option<Value>, Str>(None),
            Err(e) => self.spec_get(*path) == Err::<Option<Value>, Str>(e) }),
    { unimplemented!() }
    #[verifier::external_body]
    pub fn target_insert(&mut self, path: &OwnedTargetPath, value: Value) -> (r: Result<(), Str>)
        ensures final(self).ops@ == old(self).ops@.push(TOp::Insert(*path, value, r)),
    { unimplemented!() }
    #[verifier::external_body]
    pub fn target_remove(&mut self, path: &OwnedTargetPath, compact: bool) -> (r: Result<Option<Value>, Str>)
        ensures final(self).ops@ == old(self).ops@.push(TOp::Remove(*path, compact, r)),
    { unimplemented!() }
}
pub struct Context { pub state: RuntimeState, pub target: TargetObj, pub trace: Ghost<Seq<Ev>> }

pub open spec fn lookup(m: Map<u64, Value>, k: u64) -> Option<Value> {
    if m.dom().contains(k) { Some(m[k]) } else { None }
}

impl RuntimeState {
    // contracts of the real RuntimeState::{insert_variable, remove_variable, swap_variable}
    // (HashMap insert / remove / entry-replace); discharged by Kani units k_state_*.
    #[verifier::external_body]
    pub fn insert_variable(&mut self, ident: Ident, value: Value)
        ensures final(self).vars@ == old(self).vars@.insert(ident.id, value),
    { unimplemented!() }
    #[verifier::external_body]
    pub fn remove_variable(&mut self, ident: &Ident)
        ensures final(self).vars@ == old(self).vars@.remove(ident.id),
    { unimplemented!() }
    #[verifier::external_body]
    pub fn swap_variable(&mut self, ident: Ident, value: Value) -> (r: Option<Value>)
        ensures final(self).vars@ == old(self).vars@.insert(ident.id, value),
                r == lookup(old(self).vars@, ident.id),
    { unimplemented!() }
}

impl Context {
    pub fn state_mut(&mut self) -> (r: &mut RuntimeState)
        ensures *r == old(self).state, *final(r) == final(self).state, final(self).trace == old(self).trace, final(self).target == old(self).target,
    { &mut self.state }
    pub fn state(&self) -> (r: &RuntimeState)
        ensures *r == self.state,
    { &self.state }
    pub fn target(&self) -> (r: &TargetObj)
        ensures *r == self.target,
    { &self.target }
    pub fn target_mut(&mut self) -> (r: &mut TargetObj)
        ensures *r == old(self).target, *final(r) == final(self).target, final(self).trace == old(self).trace, final(self).state == old(self).state,
    { &mut self.target }
}
pub assume_specification<T, E> [std::result::Result::<std::option::Option<T>, E>::transpose](r: Result<Option<T>, E>) -> (o: Option<Result<T, E>>)
    ensures o == (match r { Ok(Some(x)) => Some(Ok::<T, E>(x)), Ok(None) => None::<Result<T, E>>, Err(e) => Some(Err::<T, E>(e)) });
pub assume_specification<T, E> [std::option::Option::<std::result::Result<T, E>>::transpose](o: Option<Result<T, E>>) -> (r: Result<Option<T>, E>)
    ensures r == (match o { Some(Ok(x)) => Ok::<Option<T>, E>(Some(x)), None => Ok::<Option<T>, E>(None), Some(Err(e)) => Err::<Option<T>, E>(e) });
pub assume_specification<T> [std::option::Option::<std::option::Option<T>>::flatten](o: Option<Option<T>>) -> (r: Option<T>)
    ensures r == (match o { Some(Some(x)) => Some(x), _ => None::<T> });
