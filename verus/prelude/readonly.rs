// ---- prelude for read-only path checking: src/path/owned.rs, src/compiler/compile_config.rs,
//      verify_mutable in src/compiler/expression/assignment.rs
// Field names are abstracted as ids (equal ids <=> equal strings).
pub enum OwnedSegment { Field(u64), Index(isize) }
pub struct OwnedValuePath { pub segments: Vec<OwnedSegment> }
#[derive(Clone, Copy, PartialEq, Eq, Structural)]
pub enum PathPrefix { Event, Metadata }
pub struct OwnedTargetPath { pub prefix: PathPrefix, pub path: OwnedValuePath }
pub struct ReadOnlyPath { pub path: OwnedTargetPath, pub recursive: bool }
pub struct CompileConfig { pub read_only_paths: Vec<ReadOnlyPath> }   // BTreeSet<ReadOnlyPath> in iteration order

/// the syntactic segment relation the code documents (same field / same index)
pub open spec fn seg_match(a: OwnedSegment, p: OwnedSegment) -> bool {
    match (a, p) {
        (OwnedSegment::Index(x), OwnedSegment::Index(y)) => x == y,
        (OwnedSegment::Field(x), OwnedSegment::Field(y)) => x == y,
        _ => false,
    }
}
/// may the two segments address the same element of some container? (what "never modified"
/// needs): equal fields, equal indices, or indices of different sign - a negative index counts
/// from the end, so `[-1]` and `[0]` are the same element of a one-element array, and a negative
/// insert beyond the start / a positive insert beyond the end shifts every position counted from
/// the other end (spec_insert of the C18 unit).
pub open spec fn seg_may_alias(a: OwnedSegment, p: OwnedSegment) -> bool {
    match (a, p) {
        (OwnedSegment::Index(x), OwnedSegment::Index(y)) => x == y || ((x < 0) != (y < 0)),
        (OwnedSegment::Field(x), OwnedSegment::Field(y)) => x == y,
        _ => false,
    }
}
pub open spec fn path_starts(a: Seq<OwnedSegment>, p: Seq<OwnedSegment>, rel: spec_fn(OwnedSegment, OwnedSegment) -> bool) -> bool {
    p.len() <= a.len() && forall|k: int| 0 <= k < p.len() ==> rel(#[trigger] a[k], p[k])
}
pub open spec fn tstarts(a: OwnedTargetPath, p: OwnedTargetPath, rel: spec_fn(OwnedSegment, OwnedSegment) -> bool) -> bool {
    a.prefix == p.prefix && path_starts(a.path.segments@, p.path.segments@, rel)
}
pub open spec fn tequal(a: OwnedTargetPath, b: OwnedTargetPath, rel: spec_fn(OwnedSegment, OwnedSegment) -> bool) -> bool {
    tstarts(a, b, rel) && a.path.segments@.len() == b.path.segments@.len()
}
/// the documented rule: a write to `w` is refused when it is (or may be) an ancestor of, or the
/// same location as, a read-only path, or - for recursive entries - (possibly) below it
pub open spec fn blocked(e: ReadOnlyPath, w: OwnedTargetPath, rel: spec_fn(OwnedSegment, OwnedSegment) -> bool) -> bool {
    tstarts(e.path, w, rel) || (if e.recursive { tstarts(w, e.path, rel) } else { tequal(w, e.path, |a: OwnedSegment, p: OwnedSegment| seg_match(a, p)) })
}
/// may a write to `w` reach the protected location(s) of entry `e` on some event?
pub open spec fn may_reach(e: ReadOnlyPath, w: OwnedTargetPath) -> bool {
    tstarts(e.path, w, |a: OwnedSegment, p: OwnedSegment| seg_may_alias(a, p))
        || (e.recursive && tstarts(w, e.path, |a: OwnedSegment, p: OwnedSegment| seg_may_alias(a, p)))
}

impl OwnedValuePath {
    // contract of the generic `ValuePath::can_start_with` (src/path/mod.rs: iterator plumbing, not
    // Verus-extractable); discharged for bounded paths by Kani unit k_value_path_can_start_with.
    #[verifier::external_body]
    pub fn can_start_with_path(&self, prefix: &OwnedValuePath) -> (r: bool)
        ensures r == path_starts(self.segments@, prefix.segments@, |a: OwnedSegment, p: OwnedSegment| seg_may_alias(a, p)),
    { unimplemented!() }
}
impl OwnedTargetPath {
    // derived PartialEq on (prefix, segments)
    #[verifier::external_body]
    pub fn same_as(&self, o: &OwnedTargetPath) -> (r: bool)
        ensures r == tequal(*self, *o, |a: OwnedSegment, p: OwnedSegment| seg_match(a, p)),
    { unimplemented!() }
}

// ---- assignment::verify_mutable
#[derive(Clone, Copy)]
pub struct Span { pub start: usize, pub end: usize }
pub enum Target { Noop, Internal(u64, OwnedValuePath), External(OwnedTargetPath) }
pub enum ErrorVariant { ReadOnly, Other(u64) }
pub struct Error { pub variant: ErrorVariant, pub expr_span: Span, pub assignment_span: Span }
pub open spec fn spec_is_read_only(c: CompileConfig, path: OwnedTargetPath) -> bool {
    exists|k: int| 0 <= k < c.read_only_paths@.len() && blocked(#[trigger] c.read_only_paths@[k], path, |a: OwnedSegment, p: OwnedSegment| seg_may_alias(a, p))
}

// BTreeSet::insert on the entry set (std): the set afterwards is the old set plus the new entry
pub open spec fn has_entry(s: Seq<ReadOnlyPath>, e: ReadOnlyPath) -> bool { exists|k: int| 0 <= k < s.len() && s[k] == e }
#[verifier::external_body]
pub fn set_insert(set: &mut Vec<ReadOnlyPath>, e: ReadOnlyPath)
    ensures has_entry(final(set)@, e), forall|x: ReadOnlyPath| has_entry(old(set)@, x) ==> has_entry(final(set)@, x),
{ unimplemented!() }
