// ---- prelude for src/compiler/expression/op.rs --------------------------------------
pub enum Opcode { Mul, Div, Add, Sub, Or, And, Err, Ne, Eq, Ge, Gt, Le, Lt, Merge }
pub struct Op { pub lhs: Box<Expr>, pub rhs: Box<Expr>, pub opcode: Opcode }

// ValueError: only the variant that carries an ExpressionError matters for control flow.
pub enum ValueError { Or(ExpressionError), Other(Opaque) }

// contract of `impl From<ValueError> for ExpressionError` (src/compiler/value/error.rs), used by
// every `.map_err(Into::into)`: control flow raised by the rhs of `||` comes back out unchanged,
// everything else becomes a plain runtime `Error`.  The same contract text is verified on the
// extracted real body by unit v_value_error_from.
pub open spec fn spec_value_error_into(e: ValueError, r: ExpressionError) -> bool {
    match e {
        ValueError::Or(x) => if is_ctl(x) { r == x } else { r is Error },
        ValueError::Other(_) => r is Error,
    }
}
#[verifier::external_body]
pub fn value_error_into(e: ValueError) -> (r: ExpressionError)
    ensures spec_value_error_into(e, r),
{ unimplemented!() }
impl ValueError {
    #[verifier::external_body]
    pub fn message(&self) -> (r: Msg) { unimplemented!() }
}

pub open spec fn spec_and(a: Value, b: Value) -> Option<Value> {
    match (a, b) {
        (Value::Null, _) => Some(Value::Boolean(false)),
        (Value::Boolean(_), Value::Null) => Some(Value::Boolean(false)),
        (Value::Boolean(x), Value::Boolean(y)) => Some(Value::Boolean(x && y)),
        _ => None,
    }
}
// the arithmetic/comparison helpers are deterministic functions of their operands (their values
// are decided by the C10/C11 Kani units); the same spec function is used by `resolve` and by
// `resolve_constant`, which is what C12 needs.
pub uninterp spec fn spec_try_mul(a: Value, b: Value) -> Result<Value, ValueError>;
pub uninterp spec fn spec_try_div(a: Value, b: Value) -> Result<Value, ValueError>;
pub uninterp spec fn spec_try_add(a: Value, b: Value) -> Result<Value, ValueError>;
pub uninterp spec fn spec_try_sub(a: Value, b: Value) -> Result<Value, ValueError>;
pub uninterp spec fn spec_try_gt(a: Value, b: Value) -> Result<Value, ValueError>;
pub uninterp spec fn spec_try_ge(a: Value, b: Value) -> Result<Value, ValueError>;
pub uninterp spec fn spec_try_lt(a: Value, b: Value) -> Result<Value, ValueError>;
pub uninterp spec fn spec_try_le(a: Value, b: Value) -> Result<Value, ValueError>;
pub uninterp spec fn spec_try_merge(a: Value, b: Value) -> Result<Value, ValueError>;
pub open spec fn spec_arith(op: Opcode, a: Value, b: Value) -> Result<Value, ValueError> {
    match op {
        Opcode::Mul => spec_try_mul(a, b),
        Opcode::Div => spec_try_div(a, b),
        Opcode::Add => spec_try_add(a, b),
        _ => spec_try_sub(a, b),
    }
}
pub open spec fn falsy(v: Value) -> bool { v == Value::Null || v == Value::Boolean(false) }

impl Value {
    // contract of the real try_and (truth table); discharged by Kani unit k_try_and
    #[verifier::external_body]
    pub fn try_and(self, rhs: Value) -> (r: Result<Value, ValueError>)
        ensures match spec_and(self, rhs) { Some(v) => r == Ok::<Value, ValueError>(v), None => r is Err && r->Err_0 is Other },
    { unimplemented!() }
    // eager operators: results are decided by C10/C11 Kani units on the real helpers; here only
    // "no control-flow error is invented" matters.
    #[verifier::external_body] pub fn try_mul(self, rhs: Value) -> (r: Result<Value, ValueError>) ensures r is Err ==> r->Err_0 is Other, r == spec_try_mul(self, rhs) { unimplemented!() }
    #[verifier::external_body] pub fn try_div(self, rhs: Value) -> (r: Result<Value, ValueError>) ensures r is Err ==> r->Err_0 is Other, r == spec_try_div(self, rhs) { unimplemented!() }
    #[verifier::external_body] pub fn try_add(self, rhs: Value) -> (r: Result<Value, ValueError>) ensures r is Err ==> r->Err_0 is Other, r == spec_try_add(self, rhs) { unimplemented!() }
    #[verifier::external_body] pub fn try_sub(self, rhs: Value) -> (r: Result<Value, ValueError>) ensures r is Err ==> r->Err_0 is Other, r == spec_try_sub(self, rhs) { unimplemented!() }
    #[verifier::external_body] pub fn try_gt(self, rhs: Value) -> (r: Result<Value, ValueError>) ensures r is Err ==> r->Err_0 is Other, r == spec_try_gt(self, rhs) { unimplemented!() }
    #[verifier::external_body] pub fn try_ge(self, rhs: Value) -> (r: Result<Value, ValueError>) ensures r is Err ==> r->Err_0 is Other, r == spec_try_ge(self, rhs) { unimplemented!() }
    #[verifier::external_body] pub fn try_lt(self, rhs: Value) -> (r: Result<Value, ValueError>) ensures r is Err ==> r->Err_0 is Other, r == spec_try_lt(self, rhs) { unimplemented!() }
    #[verifier::external_body] pub fn try_le(self, rhs: Value) -> (r: Result<Value, ValueError>) ensures r is Err ==> r->Err_0 is Other, r == spec_try_le(self, rhs) { unimplemented!() }
    #[verifier::external_body] pub fn try_merge(self, rhs: Value) -> (r: Result<Value, ValueError>) ensures r is Err ==> r->Err_0 is Other, r == spec_try_merge(self, rhs) { unimplemented!() }
    #[verifier::external_body] pub fn eq_lossy(&self, rhs: &Value) -> (r: bool) { unimplemented!() }
}
