// ---- prelude for C16: Compiler::compile_query (src/compiler/compiler.rs), Assignment::targets
#[derive(Clone, Copy, PartialEq, Eq, Structural)]
pub enum PathPrefix { Event, Metadata }
#[derive(PartialEq, Eq, Structural)]
pub struct OwnedValuePath { pub id: u64 }
impl Clone for OwnedValuePath {
    #[verifier::external_body]
    fn clone(&self) -> (r: Self) ensures r == *self { unimplemented!() }
}
#[derive(PartialEq, Eq, Structural)]
pub struct OwnedTargetPath { pub prefix: PathPrefix, pub path: OwnedValuePath }
impl Clone for OwnedTargetPath {
    #[verifier::external_body]
    fn clone(&self) -> (r: Self) ensures r == *self { unimplemented!() }
}
pub struct Node<T> { pub inner: T }
impl<T> Node<T> {
    pub fn into_inner(self) -> (r: T) ensures r == self.inner { self.inner }
}
pub struct AstQueryTarget { pub id: u64 }
impl Clone for Node<AstQueryTarget> {
    #[verifier::external_body]
    fn clone(&self) -> (r: Self) ensures r == *self { unimplemented!() }
}
impl Clone for Node<OwnedValuePath> {
    #[verifier::external_body]
    fn clone(&self) -> (r: Self) ensures r == *self { unimplemented!() }
}
pub struct AstQuery { pub target: Node<AstQueryTarget>, pub path: Node<OwnedValuePath> }
pub struct TypeState { pub id: u64 }
pub struct Opaque { pub id: u64 }
pub enum Target { Internal(Opaque), External(PathPrefix), FunctionCall(Opaque), Container(Opaque) }
pub struct Query { pub target: Target, pub path: OwnedValuePath }
impl Query {
    pub fn new(target: Target, path: OwnedValuePath) -> (r: Query) ensures r.target == target, r.path == path { Query { target, path } }
}
pub struct SkipSet { pub id: u64 }
impl SkipSet {
    #[verifier::external_body]
    pub fn contains(&self, k: &(AstQueryTarget, OwnedValuePath)) -> (r: bool) { unimplemented!() }
}
pub struct Compiler { pub external_queries: Vec<OwnedTargetPath>, pub external_assignments: Vec<OwnedTargetPath>, pub skip_missing_query_target: SkipSet }
impl Compiler {
    // child contract: compiling the query target neither reports nor forgets queries of *this* query
    // (nested queries inside a container/function-call target report themselves the same way)
    #[verifier::external_body]
    pub fn compile_query_target(&mut self, node: Node<AstQueryTarget>, state: &mut TypeState) -> (r: Option<Target>)
        ensures old(self).external_queries@.len() <= final(self).external_queries@.len(),
                forall|i: int| 0 <= i < old(self).external_queries@.len() ==> final(self).external_queries@[i] == old(self).external_queries@[i],
                final(self).external_assignments == old(self).external_assignments,
    { unimplemented!() }
}
pub open spec fn reported(list: Seq<OwnedTargetPath>, p: OwnedTargetPath) -> bool {
    exists|i: int| 0 <= i < list.len() && list[i] == p
}

// ---- assignment targets
pub enum ATarget { Noop, Internal(u64, OwnedValuePath), External(OwnedTargetPath) }
impl Clone for ATarget {
    #[verifier::external_body]
    fn clone(&self) -> (r: Self) ensures r == *self { unimplemented!() }
}
pub enum AVariant {
    Single { target: ATarget, expr: Opaque },
    Infallible { ok: ATarget, err: ATarget, expr: Opaque, default: Opaque },
}
pub struct Assignment { pub variant: AVariant }
