// ---- prelude for Op::type_info (src/compiler/expression/op.rs): the typing rules of binary operators.
// Kinds are sets of *members* (the scalar fragment plus the two collection tags):
pub spec const BYTES: int = 1;
pub spec const INTEGER: int = 2;
pub spec const FLOAT: int = 3;
pub spec const BOOLEAN: int = 4;
pub spec const TIMESTAMP: int = 5;
pub spec const REGEX: int = 6;
pub spec const NULL: int = 7;
pub spec const UNDEFINED: int = 8;
pub spec const ARRAY: int = 9;
pub spec const OBJECT: int = 10;

pub struct Opaque { pub id: u64 }
pub struct F64W { pub id: u64 }
impl F64W {
    pub uninterp spec fn spec_normal(self) -> bool;
    #[verifier::external_body]
    pub fn is_normal(&self) -> (r: bool) ensures r == self.spec_normal() { unimplemented!() }
}
pub enum Value { Null, Boolean(bool), Integer(i64), Float(F64W), Other(Opaque) }
impl Clone for Value {
    #[verifier::external_body]
    fn clone(&self) -> (r: Self) ensures r == *self { unimplemented!() }
}
#[verifier::external_body]
pub fn opt_value_eq_bool(v: &Option<Value>, b: bool) -> (r: bool)
    ensures r == (*v == Some(Value::Boolean(b))),
{ unimplemented!() }

// `crate::value::Kind as K` : constructors of scalar kinds
pub struct K { pub m: Ghost<Set<int>> }
impl K {
    #[verifier::external_body] pub fn null() -> (r: K) ensures r.m@ == set![NULL] { unimplemented!() }
    #[verifier::external_body] pub fn boolean() -> (r: K) ensures r.m@ == set![BOOLEAN] { unimplemented!() }
    #[verifier::external_body] pub fn bytes() -> (r: K) ensures r.m@ == set![BYTES] { unimplemented!() }
    #[verifier::external_body] pub fn integer() -> (r: K) ensures r.m@ == set![INTEGER] { unimplemented!() }
    #[verifier::external_body] pub fn float() -> (r: K) ensures r.m@ == set![FLOAT] { unimplemented!() }
    #[verifier::external_body] pub fn or_null(self) -> (r: K) ensures r.m@ == self.m@.insert(NULL) { unimplemented!() }
    #[verifier::external_body] pub fn or_boolean(self) -> (r: K) ensures r.m@ == self.m@.insert(BOOLEAN) { unimplemented!() }
    #[verifier::external_body] pub fn or_integer(self) -> (r: K) ensures r.m@ == self.m@.insert(INTEGER) { unimplemented!() }
    #[verifier::external_body] pub fn or_float(self) -> (r: K) ensures r.m@ == self.m@.insert(FLOAT) { unimplemented!() }
}

// TypeDef = (kind members, may fail). Contracts of the one-line TypeDef/Kind methods in
// src/compiler/type_def.rs and src/value/kind/*.rs; the scalar Kind algebra underneath
// (union, is_superset) is decided on the real code by the C19 Kani units.
pub open spec fn no_members(m: Set<int>) -> bool { forall|x: int| !m.contains(x) }
pub struct TypeDef { pub m: Ghost<Set<int>>, pub fall: Ghost<bool>, pub rest: Opaque }
impl Clone for TypeDef {
    #[verifier::external_body]
    fn clone(&self) -> (r: Self) ensures r == *self { unimplemented!() }
}
impl TypeDef {
    #[verifier::external_body] pub fn boolean() -> (r: TypeDef) ensures r.m@ == set![BOOLEAN], !r.fall@ { unimplemented!() }
    #[verifier::external_body] pub fn float() -> (r: TypeDef) ensures r.m@ == set![FLOAT], !r.fall@ { unimplemented!() }
    #[verifier::external_body] pub fn is_fallible(&self) -> (r: bool) ensures r == self.fall@ { unimplemented!() }
    #[verifier::external_body] pub fn is_null(&self) -> (r: bool) ensures r == (self.m@ == set![NULL]) { unimplemented!() }
    #[verifier::external_body] pub fn is_bytes(&self) -> (r: bool) ensures r == (self.m@ == set![BYTES]) { unimplemented!() }
    #[verifier::external_body] pub fn is_integer(&self) -> (r: bool) ensures r == (self.m@ == set![INTEGER]) { unimplemented!() }
    #[verifier::external_body] pub fn is_float(&self) -> (r: bool) ensures r == (self.m@ == set![FLOAT]) { unimplemented!() }
    #[verifier::external_body] pub fn is_timestamp(&self) -> (r: bool) ensures r == (self.m@ == set![TIMESTAMP]) { unimplemented!() }
    #[verifier::external_body] pub fn is_boolean(&self) -> (r: bool) ensures r == (self.m@ == set![BOOLEAN]) { unimplemented!() }
    #[verifier::external_body] pub fn is_regex(&self) -> (r: bool) ensures r == (self.m@ == set![REGEX]) { unimplemented!() }
    #[verifier::external_body] pub fn is_undefined(&self) -> (r: bool) ensures r == (self.m@ == set![UNDEFINED]) { unimplemented!() }
    #[verifier::external_body] pub fn is_array(&self) -> (r: bool) ensures r == (self.m@ == set![ARRAY]) { unimplemented!() }
    #[verifier::external_body] pub fn is_object(&self) -> (r: bool) ensures r == (self.m@ == set![OBJECT]) { unimplemented!() }
    // contains_* treat the empty ("never") kind as containing everything
    #[verifier::external_body] pub fn contains_null(&self) -> (r: bool) ensures r == (self.m@.contains(NULL) || no_members(self.m@)) { unimplemented!() }
    #[verifier::external_body] pub fn contains_boolean(&self) -> (r: bool) ensures r == (self.m@.contains(BOOLEAN) || no_members(self.m@)) { unimplemented!() }
    #[verifier::external_body] pub fn contains_bytes(&self) -> (r: bool) ensures r == (self.m@.contains(BYTES) || no_members(self.m@)) { unimplemented!() }
    #[verifier::external_body] pub fn contains_integer(&self) -> (r: bool) ensures r == (self.m@.contains(INTEGER) || no_members(self.m@)) { unimplemented!() }
    #[verifier::external_body] pub fn contains_float(&self) -> (r: bool) ensures r == (self.m@.contains(FLOAT) || no_members(self.m@)) { unimplemented!() }
    #[verifier::external_body] pub fn contains_timestamp(&self) -> (r: bool) ensures r == (self.m@.contains(TIMESTAMP) || no_members(self.m@)) { unimplemented!() }
    #[verifier::external_body] pub fn remove_null(&mut self) ensures final(self).m@ == old(self).m@.remove(NULL), final(self).fall == old(self).fall { unimplemented!() }
    #[verifier::external_body] pub fn union(self, other: TypeDef) -> (r: TypeDef) ensures r.m@ == self.m@.union(other.m@), r.fall@ == (self.fall@ || other.fall@) { unimplemented!() }
    #[verifier::external_body] pub fn merge_overwrite(self, other: TypeDef) -> (r: TypeDef) ensures self.m@.union(other.m@).subset_of(r.m@), r.fall@ == (self.fall@ || other.fall@) { unimplemented!() }
    #[verifier::external_body] pub fn maybe_fallible(self, f: bool) -> (r: TypeDef) ensures r.m@ == self.m@, r.fall@ == f { unimplemented!() }
    #[verifier::external_body] pub fn fallible(self) -> (r: TypeDef) ensures r.m@ == self.m@, r.fall@ { unimplemented!() }
    #[verifier::external_body] pub fn infallible(self) -> (r: TypeDef) ensures r.m@ == self.m@, !r.fall@ { unimplemented!() }
    #[verifier::external_body] pub fn with_kind(self, k: K) -> (r: TypeDef) ensures r.m@ == k.m@, r.fall@ == self.fall@ { unimplemented!() }
    // becomes fallible unless every member is allowed by `k`
    #[verifier::external_body] pub fn fallible_unless(self, k: K) -> (r: TypeDef) ensures r.m@ == self.m@, r.fall@ == (self.fall@ || !self.m@.subset_of(k.m@)) { unimplemented!() }
}

pub struct TypeState { pub id: Ghost<int> }
impl Clone for TypeState {
    #[verifier::external_body]
    fn clone(&self) -> (r: Self) ensures r == *self { unimplemented!() }
}
impl TypeState {
    #[verifier::external_body] pub fn merge(self, other: TypeState) -> (r: TypeState) { unimplemented!() }
}
pub struct TypeInfo { pub state: TypeState, pub result: TypeDef }
impl TypeInfo {
    pub fn new(state: TypeState, result: TypeDef) -> (r: TypeInfo) ensures r.state == state, r.result == result { TypeInfo { state, result } }
}
pub struct ExprT { pub id: Ghost<int> }
impl ExprT {
    /// the type the compiler derives for this operand in a given state, and its constant
    pub uninterp spec fn spec_type(&self, s: TypeState) -> TypeDef;
    pub uninterp spec fn spec_state(&self, s: TypeState) -> TypeState;
    pub uninterp spec fn spec_const(&self, s: TypeState) -> Option<Value>;
    #[verifier::external_body]
    pub fn apply_type_info(&self, state: &mut TypeState) -> (r: TypeDef)
        ensures r == self.spec_type(*old(state)), *final(state) == self.spec_state(*old(state)),
    { unimplemented!() }
    #[verifier::external_body]
    pub fn type_info(&self, state: &TypeState) -> (r: TypeInfo)
        ensures r.result == self.spec_type(*state), r.state == self.spec_state(*state),
    { unimplemented!() }
    #[verifier::external_body]
    pub fn resolve_constant(&self, state: &TypeState) -> (r: Option<Value>)
        ensures r == self.spec_const(*state),
                // an operand the compiler knows the constant of (a literal, or a variable bound to one) has exactly
                // that constant's kind and cannot fail (store agreement, C12)
                r is Some ==> self.spec_type(*state).m@ == set![value_member(r->Some_0)] && !self.spec_type(*state).fall@,
    { unimplemented!() }
}
pub uninterp spec fn other_member(o: Opaque) -> int;
pub open spec fn value_member(v: Value) -> int {
    match v { Value::Null => NULL, Value::Boolean(_) => BOOLEAN, Value::Integer(_) => INTEGER, Value::Float(_) => FLOAT, Value::Other(o) => other_member(o) }
}
#[derive(Clone, Copy)]
pub enum Opcode { Mul, Div, Add, Sub, Or, And, Err, Ne, Eq, Ge, Gt, Le, Lt, Merge }
pub struct Op { pub lhs: Box<ExprT>, pub rhs: Box<ExprT>, pub opcode: Opcode }

// `maybe_rhs` closure of Op::type_info: the rhs may or may not be evaluated at runtime
#[verifier::external_body]
pub fn maybe_rhs(rhs: &ExprT, state: &mut TypeState) -> (r: TypeDef)
    ensures r == rhs.spec_type(*old(state)),
{ unimplemented!() }
// constant_arithmetic_produces_nan (same file): only ever *adds* fallibility
#[verifier::external_body]
pub fn constant_arithmetic_produces_nan(op: Opcode, l: Option<&Value>, r: Option<&Value>) -> (b: bool) { unimplemented!() }

// ---- the runtime side, at the level of kinds: what the helper Op::resolve calls for this opcode
// returns for operands of members (a, b).  Decided on the real helpers by the Kani units k_optable_*.
pub enum TOut { Ok(int), OkOrNan(int), Err }
pub open spec fn is_num(a: int) -> bool { a == INTEGER || a == FLOAT }
pub open spec fn op_table(op: Opcode, a: int, b: int) -> TOut {
    match op {
        Opcode::Add => if a == INTEGER && b == INTEGER { TOut::Ok(INTEGER) } else if is_num(a) && is_num(b) { TOut::OkOrNan(FLOAT) }
            else if (a == BYTES && (b == BYTES || b == NULL)) || (a == NULL && b == BYTES) { TOut::Ok(BYTES) } else { TOut::Err },
        Opcode::Sub => if a == INTEGER && b == INTEGER { TOut::Ok(INTEGER) } else if is_num(a) && is_num(b) { TOut::OkOrNan(FLOAT) } else { TOut::Err },
        Opcode::Mul => if a == INTEGER && b == INTEGER { TOut::Ok(INTEGER) } else if is_num(a) && is_num(b) { TOut::OkOrNan(FLOAT) }
            else if (a == INTEGER && b == BYTES) || (a == BYTES && b == INTEGER) { TOut::Ok(BYTES) } else { TOut::Err },
        Opcode::Eq | Opcode::Ne => TOut::Ok(BOOLEAN),
        Opcode::Gt | Opcode::Ge | Opcode::Lt | Opcode::Le =>
            if (is_num(a) && is_num(b)) || (a == BYTES && b == BYTES) || (a == TIMESTAMP && b == TIMESTAMP) { TOut::Ok(BOOLEAN) } else { TOut::Err },
        _ => TOut::Err,   // Div / Or / And / Err / Merge have their own clauses
    }
}

// ---- control-flow nodes (if_statement.rs, not.rs, block.rs): additional TypeDef/Kind methods
pub struct KindR { pub m: Ghost<Set<int>> }     // the `returns` kind of a TypeDef
impl Clone for KindR {
    #[verifier::external_body]
    fn clone(&self) -> (r: Self) ensures r == *self { unimplemented!() }
}
impl KindR {
    #[verifier::external_body] pub fn never() -> (r: KindR) ensures r.m@ == Set::<int>::empty() { unimplemented!() }
    #[verifier::external_body] pub fn merge_keep(&mut self, other: KindR, overwrite: bool) ensures final(self).m@ == old(self).m@.union(other.m@) { unimplemented!() }
}
impl TypeDef {
    pub uninterp spec fn spec_returns(self) -> Set<int>;
    pub uninterp spec fn spec_never(self) -> bool;
    #[verifier::external_body] pub fn null() -> (r: TypeDef) ensures r.m@ == set![NULL], !r.fall@ { unimplemented!() }
    #[verifier::external_body] pub fn or_null(self) -> (r: TypeDef) ensures r.m@ == self.m@.insert(NULL), r.fall@ == self.fall@ { unimplemented!() }
    #[verifier::external_body] pub fn is_never(&self) -> (r: bool) ensures r == self.spec_never() { unimplemented!() }
    #[verifier::external_body] pub fn returns(&self) -> (r: &KindR) ensures r.m@ == self.spec_returns() { unimplemented!() }
    #[verifier::external_body] pub fn with_returns(self, k: KindR) -> (r: TypeDef) ensures r.m@ == self.m@, r.fall@ == self.fall@, r.spec_returns() == k.m@, r.spec_never() == self.spec_never() { unimplemented!() }
    // result.returns_mut().merge_keep(k, false): only the `returns` component changes
    #[verifier::external_body] pub fn returns_merge_keep(&mut self, k: KindR)
        ensures final(self).m@ == old(self).m@, final(self).fall@ == old(self).fall@, final(self).spec_returns() == old(self).spec_returns().union(k.m@) { unimplemented!() }
}
impl TypeInfo {
}
pub struct BlockT { pub inner: Vec<ExprT>, pub new_scope: bool, pub id: Ghost<int> }
impl BlockT {
    pub uninterp spec fn spec_type(&self, s: TypeState) -> TypeDef;
    pub uninterp spec fn spec_state(&self, s: TypeState) -> TypeState;
    // Block::type_info as a callee of IfStatement::type_info / Predicate
    #[verifier::external_body]
    pub fn type_info(&self, state: &TypeState) -> (r: TypeInfo)
        ensures r.result == self.spec_type(*state), r.state == self.spec_state(*state),
    { unimplemented!() }
    #[verifier::external_body]
    pub fn apply_type_info(&self, state: &mut TypeState) -> (r: TypeDef)
        ensures r == self.spec_type(*old(state)), *final(state) == self.spec_state(*old(state)),
    { unimplemented!() }
}
pub struct PredicateT { pub inner: BlockT }
impl PredicateT {
    #[verifier::external_body]
    pub fn apply_type_info(&self, state: &mut TypeState) -> (r: TypeDef)
        ensures r == self.inner.spec_type(*old(state)), *final(state) == self.inner.spec_state(*old(state)),
    { unimplemented!() }
}
pub struct IfStatement { pub predicate: PredicateT, pub if_block: BlockT, pub else_block: Option<BlockT> }
pub struct Not { pub inner: Box<ExprT> }

// ---- block.rs / return.rs
pub struct LocalT { pub id: Ghost<int> }
impl Clone for LocalT {
    #[verifier::external_body]
    fn clone(&self) -> (r: Self) ensures r == *self { unimplemented!() }
}
impl LocalT {
    #[verifier::external_body] pub fn apply_child_scope(self, child: LocalT) -> (r: LocalT) { unimplemented!() }
}
pub struct TypeStateB { pub local: LocalT, pub rest: Ghost<int> }
impl Clone for TypeStateB {
    #[verifier::external_body]
    fn clone(&self) -> (r: Self) ensures r == *self { unimplemented!() }
}
pub struct TypeInfoB { pub state: TypeStateB, pub result: TypeDef }
impl TypeInfoB {
    pub fn new(state: TypeStateB, result: TypeDef) -> (r: TypeInfoB) ensures r.state == state, r.result == result { TypeInfoB { state, result } }
}
pub struct ExprB { pub id: Ghost<int> }
impl ExprB {
    pub uninterp spec fn spec_type(&self, s: TypeStateB) -> TypeDef;
    pub uninterp spec fn spec_state(&self, s: TypeStateB) -> TypeStateB;
    #[verifier::external_body]
    pub fn apply_type_info(&self, state: &mut TypeStateB) -> (r: TypeDef)
        ensures r == self.spec_type(*old(state)), *final(state) == self.spec_state(*old(state)),
    { unimplemented!() }
}
pub struct Block { pub inner: Vec<ExprB>, pub new_scope: bool }
/// the type state before the k-th expression of a block
pub open spec fn state_before(inner: Seq<ExprB>, s0: TypeStateB, k: int) -> TypeStateB
    decreases k
{
    if k <= 0 { s0 } else { inner[k - 1].spec_state(state_before(inner, s0, k - 1)) }
}
pub open spec fn type_of(inner: Seq<ExprB>, s0: TypeStateB, k: int) -> TypeDef { inner[k].spec_type(state_before(inner, s0, k)) }
/// no expression before the k-th is typed `never` (i.e. the k-th expression is reachable)
pub open spec fn reachable(inner: Seq<ExprB>, s0: TypeStateB, k: int) -> bool {
    forall|i: int| 0 <= i < k ==> !(#[trigger] type_of(inner, s0, i)).spec_never()
}

// ---- return.rs
impl TypeDef {
    #[verifier::external_body] pub fn never() -> (r: TypeDef) ensures r.m@ == Set::<int>::empty(), r.spec_never(), !r.fall@ { unimplemented!() }
    #[verifier::external_body] pub fn kind(&self) -> (r: &KindR) ensures r.m@ == self.m@ { unimplemented!() }
}
pub struct Return { pub span: Opaque, pub expr: Box<ExprT> }
