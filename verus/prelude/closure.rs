// ---- prelude for src/compiler/function/closure.rs ---------------------------------
pub struct Runner { pub variables: Vec<Ident>, pub runner: Opaque }

pub open spec fn spec_ident(r: Runner, index: int) -> Option<Ident> {
    if 0 <= index < r.variables@.len() && !r.variables@[index].empty { Some(r.variables@[index]) } else { None }
}
pub open spec fn opt_deref(o: Option<&Ident>) -> Option<Ident> {
    match o { Some(i) => Some(*i), None => None }
}

impl Runner {
    // `(self.runner)(ctx)`: the closure body.  Weakest assumption: arbitrary outcome, arbitrary
    // effect on the variable store (it may assign the parameters, declare variables, fail).
    #[verifier::external_body]
    pub fn call_runner(&self, ctx: &mut Context) -> (r: Resolved)
        ensures final(ctx).trace@ == old(ctx).trace@.push(Ev::RunClosure(r)),
    { unimplemented!() }
}


impl Value {
    // `.try_bytes_utf8_lossy()?.into()` : Value -> KeyString or a (non control-flow) Error
    #[verifier::external_body]
    pub fn try_into_key_string(self) -> (r: Result<KeyString, ExpressionError>)
        ensures r is Err ==> r->Err_0 is Error,
    { unimplemented!() }
}

// what the closure outcome means for the iteration (C06: `return v` ends the iteration with v;
// C07: abort and errors propagate unchanged)
pub open spec fn iteration_value(out: Resolved) -> Resolved {
    match out {
        Ok(v) => Ok(v),
        Err(ExpressionError::Return { span, value }) => Ok(value),
        Err(e) => Err(e),
    }
}
pub open spec fn params_restored(r: Runner, pre: Map<u64, Value>, post: Map<u64, Value>, n: int) -> bool {
    forall|k: int| 0 <= k < n ==> (#[trigger] spec_ident(r, k)) is Some ==>
        lookup(post, spec_ident(r, k)->Some_0.id) == lookup(pre, spec_ident(r, k)->Some_0.id)
}
pub open spec fn distinct_params(r: Runner) -> bool {
    spec_ident(r, 0) is Some && spec_ident(r, 1) is Some ==> spec_ident(r, 0)->Some_0.id != spec_ident(r, 1)->Some_0.id
}
pub open spec fn closure_ran_once(pre: Seq<Ev>, post: Seq<Ev>) -> bool {
    post.len() == pre.len() + 1 && post == pre.push(post.last()) && post.last() is RunClosure
}
