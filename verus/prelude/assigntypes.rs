// ---- prelude for Variant::type_info (src/compiler/expression/assignment.rs): which type and which
//      constant an assignment records for its targets.  Kinds are abstract sets of members.
pub struct Opaque { pub id: u64 }
pub enum Value { Null, Boolean(bool), Integer(i64), Other(Opaque) }
impl Clone for Value {
    #[verifier::external_body]
    fn clone(&self) -> (r: Self) ensures r == *self { unimplemented!() }
}
pub struct KindObj { pub id: u64 }
pub struct TypeDef { pub id: u64 }
/// the member kinds a type definition admits (abstract)
pub uninterp spec fn members(t: TypeDef) -> Set<int>;
pub uninterp spec fn kind_members(k: KindObj) -> Set<int>;
/// the kind of a concrete value is a single member
pub uninterp spec fn value_member(v: Value) -> int;
impl Clone for TypeDef {
    #[verifier::external_body]
    fn clone(&self) -> (r: Self) ensures r == *self { unimplemented!() }
}
impl TypeDef {
    // TypeDef algebra (src/compiler/type_def.rs): union adds members, the fallibility/purity
    // modifiers and or_bytes never remove members. Kind-level soundness of union is C19.
    #[verifier::external_body] pub fn union(self, other: TypeDef) -> (r: TypeDef) ensures members(r) == members(self).union(members(other)) { unimplemented!() }
    #[verifier::external_body] pub fn infallible(self) -> (r: TypeDef) ensures members(r) == members(self) { unimplemented!() }
    #[verifier::external_body] pub fn impure(self) -> (r: TypeDef) ensures members(r) == members(self) { unimplemented!() }
    #[verifier::external_body] pub fn or_bytes(self) -> (r: TypeDef) ensures members(self).subset_of(members(r)) { unimplemented!() }
    // or_null / or_undefined ...: add the member of the null value (and never remove one)
    #[verifier::external_body] pub fn or_null(self) -> (r: TypeDef) ensures members(r) == members(self).insert(value_member(Value::Null)) { unimplemented!() }
    // TypeDef::from(Kind)
    #[verifier::external_body] pub fn from_kind(k: KindObj) -> (r: TypeDef) ensures members(r) == kind_members(k) { unimplemented!() }
}
impl Value {
    pub fn is_null(&self) -> (r: bool) ensures r == (*self is Null) { matches!(self, Value::Null) }
    // Value::kind(): the kind of a value contains that value
    #[verifier::external_body]
    pub fn kind(&self) -> (r: KindObj) ensures kind_members(r).contains(value_member(*self)) { unimplemented!() }
}
#[verifier::external_body]
pub fn kind_bytes_or_null() -> (r: KindObj) { unimplemented!() }

pub struct TWrite { pub target: int, pub type_def: TypeDef, pub constant: Option<Value> }
pub struct TypeState { pub writes: Ghost<Seq<TWrite>>, pub version: Ghost<int> }
impl Clone for TypeState {
    #[verifier::external_body]
    fn clone(&self) -> (r: Self) ensures r == *self { unimplemented!() }
}
pub struct TypeInfo { pub state: TypeState, pub result: TypeDef }
impl TypeInfo {
    pub fn new(state: TypeState, result: TypeDef) -> (r: TypeInfo) ensures r.state == state, r.result == result { TypeInfo { state, result } }
}
pub struct ExprT { pub id: Ghost<int> }
impl ExprT {
    pub uninterp spec fn spec_type(&self, s: TypeState) -> TypeDef;
    pub uninterp spec fn spec_const(&self, s: TypeState) -> Option<Value>;
    // child contracts: the rhs's type_info may record writes of its own, never removes earlier ones
    #[verifier::external_body]
    pub fn apply_type_info(&self, state: &mut TypeState) -> (r: TypeDef)
        ensures r == self.spec_type(*old(state)), final(state).writes@.len() >= old(state).writes@.len(),
    { unimplemented!() }
    #[verifier::external_body]
    pub fn resolve_constant(&self, state: &TypeState) -> (r: Option<Value>)
        ensures r == self.spec_const(*state),
    { unimplemented!() }
}
pub struct Target { pub id: Ghost<int> }
impl Target {
    // insert_type_def as a callee: records (target, type, constant); its own contract is the unit v_constants
    #[verifier::external_body]
    pub fn insert_type_def(&self, state: &mut TypeState, new_type_def: TypeDef, value: Option<Value>)
        ensures final(state).writes@ == old(state).writes@.push(TWrite { target: self.id@, type_def: new_type_def, constant: value }),
    { unimplemented!() }
}
pub enum Variant {
    Single { target: Target, expr: Box<ExprT> },
    Infallible { ok: Target, err: Target, expr: Box<ExprT>, default: Value },
}
