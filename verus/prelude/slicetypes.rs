// ---- prelude for SliceFn::type_def (src/stdlib/slice.rs): array types at element level.
// A kind is a set of member tags; an array type additionally records the kind of each known index
// and the kind of every other ("unknown") index.  Element kinds are compared at their top-level tag
// only (an element that is itself a collection is just ARRAY / OBJECT): enough to say where an
// element of one kind may appear.
pub spec const BYTES: int = 1;
pub spec const INTEGER: int = 2;
pub spec const UNDEFINED: int = 8;
pub spec const ARRAY: int = 9;
pub struct Opaque { pub id: u64 }
pub struct TypeState { pub id: u64 }
pub struct Collection { pub any: bool }
impl Collection { #[verifier::external_body] pub fn any() -> (r: Collection) ensures r.any { unimplemented!() } }
pub struct TypeDef { pub m: Ghost<Set<int>>, pub known: Ghost<Map<int, Set<int>>>, pub unknown: Ghost<Set<int>>, pub fall: Ghost<bool> }
// an array value, as the sequence of its elements' tags, belongs to a type
pub open spec fn array_in_type(a: Seq<int>, t: TypeDef) -> bool {
    &&& t.m@.contains(ARRAY)
    &&& forall|i: int| 0 <= i < a.len() ==> (if t.known@.dom().contains(i) { t.known@[i].contains(#[trigger] a[i]) } else { t.unknown@.contains(a[i]) })
    // a known index beyond the end of the array must be allowed to be absent
    &&& forall|i: int| #![trigger t.known@[i]] t.known@.dom().contains(i) && i >= a.len() ==> t.known@[i].contains(UNDEFINED)
}
impl TypeDef {
    // TypeDef::from(Kind::never())
    #[verifier::external_body] pub fn never() -> (r: TypeDef) ensures r.m@ == Set::<int>::empty(), !r.fall@ { unimplemented!() }
    #[verifier::external_body] pub fn fallible(self) -> (r: TypeDef) ensures r.m@ == self.m@, r.known@ == self.known@, r.unknown@ == self.unknown@, r.fall@ { unimplemented!() }
    // Kind::union: members of both; the array part of the only side that has one (both-array case not specified here)
    #[verifier::external_body] pub fn union(self, other: TypeDef) -> (r: TypeDef)
        ensures r.m@ == self.m@.union(other.m@), r.fall@ == (self.fall@ || other.fall@),
                !self.m@.contains(ARRAY) ==> r.known@ == other.known@ && r.unknown@ == other.unknown@,
                !other.m@.contains(ARRAY) ==> r.known@ == self.known@ && r.unknown@ == self.unknown@ { unimplemented!() }
    #[verifier::external_body] pub fn is_bytes(&self) -> (r: bool) ensures r == (self.m@ == set![BYTES]) { unimplemented!() }
    #[verifier::external_body] pub fn is_array(&self) -> (r: bool) ensures r == (self.m@ == set![ARRAY]) { unimplemented!() }
    #[verifier::external_body] pub fn or_bytes(self) -> (r: TypeDef) ensures r.m@ == self.m@.insert(BYTES), r.known@ == self.known@, r.unknown@ == self.unknown@, r.fall@ == self.fall@ { unimplemented!() }
    // or_array(Collection::any()): any element kind at any index
    #[verifier::external_body] pub fn or_array(self, c: Collection) -> (r: TypeDef)
        ensures r.m@ == self.m@.insert(ARRAY), r.fall@ == self.fall@,
                (c.any && !self.m@.contains(ARRAY)) ==> r.known@ == Map::<int, Set<int>>::empty() && (forall|x: int| r.unknown@.contains(x)) { unimplemented!() }
}
// child contract: the argument expression has some type in the given state
pub struct Expr { pub id: u64 }
impl Expr {
    pub uninterp spec fn spec_type(&self, state: &TypeState) -> TypeDef;
    #[verifier::external_body] pub fn type_def(&self, state: &TypeState) -> (r: TypeDef) ensures r == self.spec_type(state) { unimplemented!() }
}
pub struct SliceFn { pub value: Expr, pub start: Expr, pub end: Option<Expr> }
