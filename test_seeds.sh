#!/bin/bash
# Regression over the seeded property-breaking changes: apply each patch to /repo, run the property's
# quick check, expect exit 1 with a VIOLATION line, undo.  Usage: ./test_seeds.sh [name-substring]
cd /verif
fail=0
for d in seeded/*/; do
  n=$(basename $d)
  [ -n "$1" ] && [[ "$n" != *"$1"* ]] && continue
  p=$(python3 -c "import json;print(json.load(open('$d/meta.json'))['property'])")
  git -C /repo apply $PWD/$d/patch.diff || { echo "$n: patch does not apply"; fail=1; continue; }
  out=$(./check $p --tier quick 2>/dev/null); rc=$?
  git -C /repo checkout -- .
  # the run above rewrote the evidence file from a seeded tree: put the committed (clean-tree) record back
  git -C /verif checkout -- evidence/$p.json 2>/dev/null
  v=$(echo "$out" | grep -c "^VIOLATION property=$p ")
  echo "$n: property=$p rc=$rc violations=$v $(echo "$out" | grep "^VIOLATION" | head -1 | sed 's/.*obligation=//')"
  [ $rc -ne 1 ] && fail=1
done
git -C /repo status --short
exit $fail
