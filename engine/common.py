"""Shared helpers: paths, evidence writing, known findings, exit protocol."""
import hashlib
import json
import os
import re
import subprocess
import sys
import time

VERIF = "/verif"
REPO = "/repo"
CACHE = os.path.join(VERIF, ".cache")
EVID = os.path.join(VERIF, "evidence")
REPLAYS = os.path.join(VERIF, "replays")
KNOWN = os.path.join(VERIF, "known_findings.txt")

EXIT_OK, EXIT_VIOLATION, EXIT_UNDECIDED = 0, 1, 2


def ensure_dirs():
    for d in (CACHE, EVID, REPLAYS, os.path.join(CACHE, "playback"), os.path.join(CACHE, "verus")):
        os.makedirs(d, exist_ok=True)


def sha(s):
    if isinstance(s, str):
        s = s.encode()
    return hashlib.sha256(s).hexdigest()


def read(p):
    with open(p, encoding="utf-8") as f:
        return f.read()


def write(p, s):
    os.makedirs(os.path.dirname(p), exist_ok=True)
    with open(p, "w", encoding="utf-8") as f:
        f.write(s)


def env_offline():
    e = dict(os.environ)
    e["CARGO_NET_OFFLINE"] = "true"
    e.setdefault("CARGO_TERM_COLOR", "never")
    return e


def run(cmd, cwd=None, timeout=None, env=None):
    """Run, return (rc, out, wall). rc=None on timeout."""
    t0 = time.time()
    try:
        p = subprocess.run(cmd, cwd=cwd, env=env or env_offline(), stdout=subprocess.PIPE,
                           stderr=subprocess.STDOUT, timeout=timeout, text=True, errors="replace")
        return p.returncode, p.stdout, time.time() - t0
    except subprocess.TimeoutExpired as ex:
        out = ex.stdout or ""
        if isinstance(out, bytes):
            out = out.decode(errors="replace")
        return None, out, time.time() - t0


def known_findings():
    """Parse known_findings.txt -> (findings, fixed). Each finding: dict(property, key, text)."""
    findings, fixed = [], []
    if not os.path.exists(KNOWN):
        return findings, fixed
    for line in read(KNOWN).splitlines():
        line = line.strip()
        if not line or line.startswith("#"):
            continue
        m = re.match(r"(finding|fixed):\s*property=(C\d+)\s+(.*)$", line)
        if not m:
            continue
        kind, pid, rest = m.groups()
        if kind == "finding":
            # finding: property=Cxx obligation=<obligation id> <what fails>
            mo = re.match(r"obligation=(\S+)\s+(.*)$", rest)
            if mo:
                findings.append(dict(property=pid, obligation=mo.group(1), text=mo.group(2)))
        else:
            fixed.append(dict(property=pid, text=rest))
    return findings, fixed


def write_evidence(pid, tier, seed, level, coverage, assumptions, wall, violations):
    ensure_dirs()
    ev = dict(property_id=pid, tier=tier, seed=seed, level=level, coverage=coverage,
              assumptions=assumptions, wall_s=round(wall, 2), violations=violations)
    write(os.path.join(EVID, pid + ".json"), json.dumps(ev, indent=1, sort_keys=False) + "\n")
    return ev


def log(*a):
    print(*a, file=sys.stderr, flush=True)
