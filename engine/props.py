"""Property -> units registry."""
from . import kani_run as K

K.register_module("arithmetic", "src/compiler/value/arithmetic.rs", "compiler::value::arithmetic::kani_verif", "compiler")
K.register_module("op", "src/compiler/expression/op.rs", "compiler::expression::op::kani_verif", "compiler")

COMMON_TRUSTED = [
    "Kani 0.68 / CBMC 6.11 / CaDiCaL (bit-precise; IEEE-754 round-to-nearest float model)",
    "rustc nightly-2026-08-21 MIR for the crate under cfg(kani) equals the MIR built by the pinned 1.95 toolchain up to cfg(kani)-guarded items",
    "harness/prelude text under /verif/kani and /verif/verus (listed per unit)",
]
COMMON_ASSUMPTIONS = [
    "Kani does not prove termination",
    "Kani stubs: alloc::fmt::format -> empty String (message text is never part of a property), regex::Regex::new -> panic, std::hash::RandomState::new -> fixed keys",
    "machine integers are bit-vectors in Kani and range-checked mathematical integers in Verus",
]

PROPS = {}

PROPS["C10"] = dict(
    level="proof",
    text="comparison helpers on the real Value type: full i64xi64, full non-NaN f64xf64, mixed int/float",
    kani=["c10_int_cmp", "c10_float_cmp", "c10_mixed_eq"],
    trusted=[],
    not_covered=["byte-string and timestamp ordering beyond the listed bounded units", "structural equality of nested collections (derived PartialEq, std)"],
)
PROPS["C11"] = dict(
    level="proof",
    text="arithmetic helpers on the real Value type over the full numeric domains",
    kani=["c11_int_arith", "c11_int_rem", "c11_int_div", "c11_float_result", "c11_float_add", "c11_float_sub",
          "c11_float_mul", "c11_float_div", "c11_float_rem", "c11_mixed_add_sub", "c11_mixed_mul", "c11_mixed_div",
          "c11_bytes_mul_clamp"],
    trusted=[],
    not_covered=["string concatenation/repetition contents beyond the bounded unit (bytes crate internals)"],
)

PROPS["C13"] = dict(
    level="proof",
    text="closure parameter scoping: the four real Runner methods and cleanup, extracted and verified by Verus against a ghost variable store; every exit path (Ok, error, return)",
    verus=["v_closure_runner"],
    kani=[],
    trusted=["verus prelude interp.rs + closure.rs: RuntimeState method contracts (HashMap insert/remove/entry), closure::insert and Runner::ident contracts (assumed; Kani discharge units planned)",
             "call_runner: the closure body is havoc on the store with an arbitrary outcome"],
    assumptions=["the two closure parameter identifiers are distinct (precondition distinct_params)"],
    not_covered=["compile-time half: Builder::compile_closure restoring state.local", "the five stdlib callers beyond the frame scan that they only run closures through Runner"],
    technique="contract-based deductive verification (Verus on mechanically extracted real bodies)",
)

HOOK_COMMITS = ["8978857"]
