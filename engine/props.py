"""Property -> units registry."""
from . import kani_run as K

K.register_module("arithmetic", "src/compiler/value/arithmetic.rs", "compiler::value::arithmetic::kani_verif", "compiler")
K.register_module("value_error", "src/compiler/value/error.rs", "compiler::value::error::kani_verif", "compiler")
K.register_module("convert", "src/compiler/value/convert.rs", "compiler::value::convert::kani_verif", "compiler")
STD = "stdlib-base"
K.register_module("std_abs", "src/stdlib/abs.rs", "stdlib::abs::kani_verif", STD)
K.register_module("std_mod", "src/stdlib/mod_func.rs", "stdlib::mod_func::kani_verif", STD)
K.register_module("std_to_int", "src/stdlib/to_int.rs", "stdlib::to_int::kani_verif", STD)
K.register_module("std_to_float", "src/stdlib/to_float.rs", "stdlib::to_float::kani_verif", STD)
K.register_module("std_ip_subnet", "src/stdlib/ip_subnet.rs", "stdlib::ip_subnet::kani_verif", STD)
K.register_module("std_format_int", "src/stdlib/format_int.rs", "stdlib::format_int::kani_verif", STD)
K.register_module("query", "src/compiler/expression/query.rs", "compiler::expression::query::kani_verif", "compiler")
K.register_module("assignment", "src/compiler/expression/assignment.rs", "compiler::expression::assignment::kani_verif", "compiler")
K.register_module("runtime", "src/compiler/runtime.rs", "compiler::runtime::kani_verif", "compiler")
K.register_module("std_del", "src/stdlib/del.rs", "stdlib::del::kani_verif", STD)
K.register_module("std_exists", "src/stdlib/exists.rs", "stdlib::exists::kani_verif", STD)
K.register_module("crud", "src/value/value/crud/mod.rs", "value::value::crud::kani_verif", "compiler")
K.register_module("kind", "src/value/kind.rs", "value::kind::kani_verif", "compiler")
K.register_module("path_owned", "src/path/owned.rs", "path::owned::kani_verif", "compiler")
K.register_module("op", "src/compiler/expression/op.rs", "compiler::expression::op::kani_verif", "compiler")

COMMON_TRUSTED = [
    "Kani 0.68 / CBMC 6.11 / CaDiCaL (bit-precise; IEEE-754 round-to-nearest float model)",
    "rustc nightly-2026-08-21 MIR for the crate under cfg(kani) equals the MIR built by the pinned 1.95 toolchain up to cfg(kani)-guarded items",
    "harness/prelude text under /verif/kani and /verif/verus (listed per unit)",
]
COMMON_ASSUMPTIONS = [
    "Kani does not prove termination",
    "Kani stubs: alloc::fmt::format -> empty String (message text is never part of a property), regex::Regex::new -> panic, std::hash::RandomState::new -> fixed keys",
    "machine integers are bit-vectors in Kani and range-checked mathematical integers in Verus",
]

PROPS = {}

PROPS["C10"] = dict(
    level="proof",
    text="comparison helpers on the real Value type: full i64xi64, full non-NaN f64xf64, mixed int/float (Kani, in place); "
         "try_gt/try_ge/try_lt/try_le extracted and verified by Verus for integers, every pair of strings and every pair of timestamps against the lexicographic / chronological order",
    kani=["c10_int_cmp", "c10_float_cmp", "c10_mixed_eq"],
    verus=["v_cmp"],
    trusted=["verus prelude cmp.rs: std `>`,`>=`,`<`,`<=` on bytes::Bytes are the lexicographic byte order and on chrono::DateTime<Utc> the order on (seconds, nanoseconds) -- their Ord definitions, stated as contracts of bytes_*/ts_*; try_bytes/try_timestamp return the payload or a type error",
             "float and mixed int/float arms are opaque in the Verus unit (float_cmp_*); they are the subject of the Kani units"],
    not_covered=["structural equality of nested collections (derived PartialEq, std)"],
)
PROPS["C11"] = dict(
    verus=["v_str_arith"],
    level="proof",
    text="arithmetic helpers on the real Value type over the full numeric domains",
    kani=["c11_int_arith", "c11_int_rem_class", "c11_int_rem_value_bounded", "c11_int_div_class", "c11_int_div_value_bounded",
          "c11_float_result", "c11_float_add", "c11_float_sub", "c11_float_mul", "c11_float_div_class", "c11_float_div_value_bounded",
          "c11_float_rem_class", "c11_mixed_add_sub", "c11_mixed_mul", "c11_mixed_div_class", "c11_bytes_mul_clamp"],
    trusted=[],
    not_covered=["the bytes crate itself (Bytes/BytesMut put/freeze/repeat are std/bytes contracts in the prelude strarith.rs); string `+` and `*` are proved for every string against those contracts (v_str_arith)",
                 "numeric value of `/` and `%` results over the full domain: two 64-bit dividers in one SAT query did not finish in 30 min, so value equality is bounded (stated per unit) while zero-divisor/NaN classification is full-domain",
                 "float `%` NaN classification: CBMC's frem model disagrees with IEEE for infinite dividends, so only 'never returns NaN' is claimed"],
)

PROPS["C13"] = dict(
    bounded_native=[dict(unit="closure_scope", bound="13 scripted programs over the five closure-taking functions", functions=["stdlib for_each/filter/map_keys/map_values/replace_with loops", "Builder::compile_closure"], text="the iteration loops of the closure-taking stdlib functions and the compile-time scoping are out of reach: closure parameters are restored / not visible afterwards on the scripted programs")],
    level="proof",
    text="closure parameter scoping: the four real Runner methods, insert, cleanup and ident, extracted and verified by Verus against a ghost variable store; every exit path (Ok, error, return); the real bodies of stdlib for_each, map_keys and map_values verified modularly against those Runner contracts (loop invariant: parameters restored after any number of iterations, on every exit)",
    verus=["v_closure_runner", "v_closure_callers"],
    kani=[],
    trusted=["verus prelude closurecallers.rs: ValueIter::next is finite; iteration items are opaque handles; the Runner method contracts used there are the ones discharged by v_closure_runner", "verus prelude interp.rs + closure.rs: RuntimeState::{insert_variable, remove_variable, swap_variable} contracts (HashMap insert/remove/entry, std); closure::insert, closure::cleanup and Runner::ident are verified from their real bodies",
             "call_runner: the closure body is havoc on the store with an arbitrary outcome"],
    not_covered=["compile-time half: Builder::compile_closure restoring state.local", "stdlib filter (iterator adapters whose closure captures &mut ctx) and replace_with (regex captures, str slicing): only the frame scan that they run closures through Runner, plus the bounded stand-in; for_each, map_keys and map_values ARE under contract (v_closure_callers, checked against the Runner contracts)"],
    technique="contract-based deductive verification (Verus on mechanically extracted real bodies)",
)

TRY_OR = ["k_try_or_null_int", "k_try_or_null_abort", "k_try_or_null_return", "k_try_or_false_int", "k_try_or_false_abort",
          "k_try_or_false_return", "k_try_or_true", "k_try_or_int", "k_try_or_float", "k_try_or_bytes", "k_try_or_truthy_identity"]
INTERP_TRUSTED = [
    "verus prelude interp.rs/nodes.rs/op.rs: abstract Value/ExpressionError/Context with ghost trace; child contract Expr::resolve = appends one Eval event with an arbitrary outcome and arbitrary store effect",
    "structural induction over the AST (paper lemma, DESIGN section 2) and the node-kind enumeration (frame scan expr_variants)",
    "definitions of the std combinators desugared by the extractor: Result::or_else, Result::map_err, Option::map_or, Option::map+transpose, Iterator::try_for_each, collect::<Result<_,_>>",
    "the try_or functional contract substituted at `.try_or(|| rhs.resolve(ctx))` is discharged on the real generic function by the Kani units k_try_or_* (run by the C09 check)",
    "callee contracts assumed in the prelude and not discharged: Target::insert = exactly one write and no error, try_message/to_message_value opaque conversions, Value::clone == identity",
]
INTERP_NOT_COVERED = ["stdlib function bodies that evaluate their arguments (each `Function::resolve` is a child contract here)",
                      "Query, Variable, Literal, Noop leaf nodes (they evaluate no children)", "Block scoping of local variables"]

PROPS["C06"] = dict(
    bounded_native=[dict(unit="ctl_programs", bound="48 scripted programs", functions=["stdlib closure functions", "Compiler"], text="end-to-end stand-in for the parts the node contracts do not cover (stdlib iteration loops, compilation): return/abort/short-circuit behave as specified on the scripted programs")],
    level="proof",
    text="`return` cannot be intercepted: Ctl contract on every interpreter node that evaluates children (real bodies extracted, Verus), the From<ValueError> conversion, the closure Runner (return = iteration value), Return::resolve raises exactly the value",
    verus=["v_nodes", "v_op_resolve", "v_value_error_from", "v_closure_runner", "v_closure_callers", "v_target_ops"],
    kani=[],
    scans=["expr_variants", "closure_callers"],
    trusted=INTERP_TRUSTED,
    not_covered=INTERP_NOT_COVERED,
    technique="contract-based deductive verification (Verus on mechanically extracted real bodies; Kani for the try_or callee contract)",
)
PROPS["C07"] = dict(
    bounded_native=[dict(unit="ctl_programs", bound="48 scripted programs", functions=["stdlib closure functions", "Compiler"], text="end-to-end stand-in for the parts the node contracts do not cover (stdlib iteration loops, compilation): return/abort/short-circuit behave as specified on the scripted programs")],
    level="proof",
    text="`abort` cannot be intercepted: Ctl contract on every interpreter node that evaluates children (real bodies extracted, Verus), the From<ValueError> conversion, the closure Runner, Abort::resolve raises the abort outcome",
    verus=["v_nodes", "v_op_resolve", "v_value_error_from", "v_closure_runner", "v_closure_callers"],
    kani=[],
    scans=["expr_variants", "closure_callers"],
    trusted=INTERP_TRUSTED,
    not_covered=INTERP_NOT_COVERED,
    technique="contract-based deductive verification (Verus on mechanically extracted real bodies; Kani for the try_or callee contract)",
)
PROPS["C08"] = dict(
    level="proof",
    text="`??` and `ok, err =` follow their definitions: Op::resolve Err arm and Variant::resolve (real bodies, Verus) against the ghost trace; From<ValueError> error class",
    verus=["v_op_resolve", "v_nodes", "v_value_error_from", "v_target_ops", "v_assign_types"],
    kani=[],
    scans=["expr_variants"],
    trusted=INTERP_TRUSTED + ["assigntypes.rs prelude: TypeDef algebra as abstract member sets (union adds members; infallible/impure/or_bytes never remove members; the kind of a value contains it) - kind-level soundness of union is C19's scalar unit"],
    not_covered=["DefaultValue::default_value itself (which default is chosen at compile time); what is proved is that whatever default is stored, ok's recorded type admits it"],
    technique="contract-based deductive verification (Verus on mechanically extracted real bodies)",
)
PROPS["C09"] = dict(
    level="proof",
    text="short-circuit and conditional evaluation: Op::resolve Or/And arms, IfStatement, Predicate, Block, Array, Object, Not (real bodies, Verus, ghost trace says which children ran); try_or/try_and/try_boolean callee contracts (Kani on the real functions)",
    verus=["v_op_resolve", "v_nodes"],
    kani=TRY_OR + ["k_try_and_table", "k_try_boolean"],
    scans=["expr_variants"],
    trusted=INTERP_TRUSTED,
    not_covered=["side effects inside children are abstracted: a child that is not evaluated has no effect by construction of the trace"],
    technique="contract-based deductive verification (Verus on mechanically extracted real bodies; Kani function contracts for try_or/try_and/try_boolean)",
)

PROPS["C18"] = dict(
    bounded_native=[dict(unit="crud_paths", bound="6 nested values x 56 paths of <= 2 segments over {a, b, d, [0], [1], [-1], [-3]}, with and without pruning", functions=["value::crud::insert", "value::crud::remove", "Value::get/insert/remove"], text="the recursive, trait-generic crud::insert / crud::remove (polymorphic recursion over ValueCollection, BTreeMap) are out of Verus' and CBMC's reach: insert-then-get, remove-returns-get, missing-path removal changes nothing, sibling frame hold on the bounded domain")],
    level="proof",
    text="get/insert/remove laws for array elements: array_index and Vec<Value>::{get_value,insert_value,remove_value} (real bodies, Verus, unbounded lengths, both padding loops with invariants and termination) against whole-sequence specs; the C18 laws are lemmas over those specs",
    verus=["v_crud_vec", "v_crud_get"],
    kani=[],
    trusted=["verus prelude crud.rs: abstract Value; spec functions spec_index/spec_get/spec_insert/spec_remove are the reading of the property for arrays (non-negative index: positions from the front, padding null; negative index: positions from the back)",
             "std contracts: mem::replace (assume_specification), vstd Vec::push/insert/remove/index specs",
             "preconditions: key > isize::MIN and len + |key| < isize::MAX (their complement is the memory-exhaustion case C04 excludes)"],
    not_covered=["recursive crud::{insert,remove} over multi-segment paths are only covered by the bounded native stand-in crud_paths (polymorphic recursion over the ValueCollection trait); crud::get is proved (v_crud_get)", "ObjectMap delegation to BTreeMap (std)", "quoted-field path segments (parser, C20)"],
    technique="contract-based deductive verification (Verus on mechanically extracted real bodies, loop invariants + decreases)",
)

PROPS["C29"] = dict(
    level="proof",
    text="numeric functions on the scalar domain: abs over all i64 (wraps only at MIN, no panic) and all non-NaN f64, mod = truncated remainder (sign/magnitude/zero), to_int/to_float scalar arms over the full i64/f64/bool domain",
    kani=["k_abs_int", "k_abs_float", "c29_mod_int_bounded", "c29_mod_int_class", "k_to_int_scalar", "k_to_float_scalar"],
    scans=["mod_delegates"],
    bounded_native=[dict(unit="rounding_laws", bound="22 inputs (tiny, ordinary, huge, +-1e300, f64::MAX, ties) x precisions -6..=22 x round/ceil/floor: 1914 calls",
                         functions=["stdlib round / ceil / floor -> util::round_to_precision"],
                         text="10f64.powf(p) has no precise model in CBMC and Verus has no floats: on the stated domain the result is a finite float within 10^-precision of the input, ceil never below and floor never above"),
                    dict(unit="rounding_extreme_precision", bound="the same inputs plus the subnormals +-5e-324 x precisions where 10^precision is not a normal f64 (+-309, +-330, +-400, i64::MIN, i64::MAX) and -1, 0: 720 calls",
                         functions=["util::round_to_precision where num * 10^precision underflows to zero"],
                         text="the case class of the recorded finding (direction of ceil/floor when the scaled value underflows), kept apart so that any other failure of rounding_laws is reported")],
    trusted=["Conversion::convert (std string->number parsing) is stubbed out: the Bytes arms of to_int/to_float are not covered"],
    not_covered=["round/ceil/floor with precision beyond the bounded stand-in (10f64.powf(p): no precise pow in CBMC, no floats in Verus)", "to_string / parse_int / parse_float (std float formatting and parsing)",
                 "float mod beyond 'never NaN' (C11)", "mod value identity is bounded to |a|,|b| < 2^15 (64-bit divider miter does not finish)"],
)
PROPS["C25"] = dict(
    level="proof",
    text="from_unix_timestamp/to_unix_timestamp: both real bodies extracted and verified by Verus against chrono's documented accessors (instant = v units after the epoch; floored counts), the round trip is a machine-checked lemma over the two contracts for every i64 and all four units. format_int/parse_int: the real format_radix body (Verus, every i64, every radix 2..=36): sign, digit validity, positional value == |x|, no overflow at i64::MIN, termination; round trip is a lemma over this contract and std's from_str_radix contract",
    verus=["v_format_radix", "v_unix_timestamp"],
    kani=[],
    bounded_native=[dict(unit="pair_roundtrips", bound="19 edge + 2000 pseudo-random u32 addresses (5 compositions each), 2012 IPv6 addresses, 55 objects of depth <= 3 (scalars, scalar arrays, keys with spaces; no separators, no empty containers), 18 x 6 timestamps between years 1677 and 2262 with one full-precision format: 10306 compositions",
                         functions=["stdlib ip_aton, ip_ntoa, ip_pton, ip_ntop, ip_to_ipv6, ipv6_to_ipv4 (std Ipv4Addr/Ipv6Addr parsing and printing)", "to_entries, from_entries, flatten, unflatten (BTreeMap iteration)", "format_timestamp, parse_timestamp (chrono strftime/strptime)"],
                         text="the pairs whose code is std / chrono parsing and printing are outside both verifiers: each composition restores its input on the stated finite domain (bounded, never counted as proved)")],
    trusted=["verus prelude unixts.rs: DateTime<Utc> as nanoseconds since the epoch inside chrono's range; chrono accessors by their documentation", "std::char::from_digit and i64::from_str_radix contracts (assumed, std)", "String = chars in order (the final collect)", "format_int's base check `(2..=36).contains(&base)` establishes the radix precondition (read, not verified)"],
    not_covered=["flatten/unflatten, to_entries/from_entries, ip_* pairs (std Ipv4Addr/Ipv6Addr parsers), format_timestamp/parse_timestamp (chrono strftime/strptime): no contract, only the bounded stand-in pair_roundtrips", "chrono itself: Utc.timestamp_opt / timestamp_millis_opt / timestamp_micros / timestamp_nanos and DateTime::timestamp* are assumed contracts (prelude unixts.rs)"],
    technique="contract-based deductive verification (Verus on the mechanically extracted real body, loop invariant + nonlinear lemmas)",
)

PROPS["C28"] = dict(
    level="proof",
    text="collection laws that live in vrl code: slice agrees with positional indexing (every array/string, every i64 start/end, incl. negative positions and error cases), "
         "length agrees with the container, merge has from's values on shared keys / recursive merge of objects under `deep` to every depth -- the real bodies of stdlib slice, length and merge_maps, extracted and verified by Verus; "
         "the string laws (casing, strip_whitespace, split/join, starts_with/ends_with/contains, truncate, strlen) and unique/compact/keys/values are std str/IndexSet/BTreeMap calls outside both verifiers: they are covered only by bounded native stand-ins (labelled bounded, never counted as proved)",
    verus=["v_collections", "v_find"],
    kani=[],
    bounded_native=[dict(unit="collection_laws", bound="arrays and strings of length 0..4 x start,end in -6..6 (and no end); 57 objects of depth <= 3 pairwise, deep and shallow",
                         functions=["stdlib slice/length/merge through compiled VRL programs (argument plumbing: SliceFn/LengthFn/MergeFn::resolve)"],
                         text="the argument plumbing of the three function expressions (resolve: optional end, deep default) is outside the extracted bodies: slice/length/merge called from VRL agree with a reference model on the stated domain"),
                    dict(unit="string_laws", bound="all 1555 strings over {a, B, space, comma, e-acute, sharp-s} up to length 4 x 5 separators x 6 limits; all 128 sub-lists of 7 items for unique/compact/keys/values: 58047 law instances",
                         bound_thorough="all 9331 strings over the same alphabet up to length 5 x 5 separators x 6 limits; all 128 sub-lists of 7 items: 345759 law instances",
                         functions=["stdlib upcase, downcase, strip_whitespace, strlen, split, join, starts_with, ends_with, contains, truncate, unique, compact, keys, values (std str / IndexSet / iterator code outside both verifiers)"],
                         text="the string and collection laws of the property on the stated domain: idempotence of upcase/downcase/strip_whitespace, strip_whitespace = trim, strlen = scalar count, join(split(s, d), d) == s, starts_with/ends_with/contains agree with substring position, truncate keeps min(n, len) characters (+ suffix), unique keeps first occurrences, compact drops exactly the empty items, keys/values agree with the object")] + [
                    dict(unit="casing_" + f, bound="all 4681 strings over {a, B, space, comma, e-acute, sharp-s, underscore, 1} up to length 4", bound_thorough="all 37449 strings over the same alphabet up to length 5", functions=["stdlib " + f + " (convert_case)"],
                         text=f + "(" + f + "(s)) == " + f + "(s) on the stated domain") for f in ["snakecase", "kebabcase", "screamingsnakecase", "camelcase", "pascalcase"]],
    trusted=["verus prelude collections.rs: bytes::Bytes::slice and Vec::drain(range).collect() return the sub-sequence [start, end) (and panic unless start <= end <= len, which is therefore a proof obligation of the caller); BTreeMap get_mut/insert/iteration as a finite map visited once per key; Value/KeyString clone is the identity",
             "`len as i64` equals the length (std allocation bound isize::MAX; prelude len_i64)",
             "error-message construction (format!, ValueError::Expected) opaque",
             "merge_maps is generic over the key type K; verified at an abstract key type with identity clone"],
    not_covered=["upcase/downcase/casing idempotence, strip_whitespace, join(split), starts_with/ends_with/contains, truncate, strlen: std str and Unicode tables, no contract within reach of Verus (no str reasoning) or CBMC (String)",
                 "unique (IndexSet), compact (iterator filter_map recursion), keys/values (BTreeMap into_keys/into_values): pure library delegation or iterator adapters Verus rejects",
                 "termination of merge_maps' recursion"],
    technique="contract-based deductive verification (Verus on mechanically extracted real bodies; closure contract, loop invariant with ghost done-set)",
)

PROPS["C05"] = dict(
    level="proof",
    text="termination and output-size bounds where a contract reaches the loop: stdlib format_number (the anchored hang) -- the real body extracted and verified by Verus: with a scale n the result has exactly max(n, 0) fraction digits, so the padding loop runs at most n times for every i64 scale, and the Decimal conversion is never unwrapped when it has no answer; "
         "format_int's digit loop (format_radix) terminates for every i64 and radix (proved `decreases`). Every other stdlib function is NOT decided",
    verus=["v_format_number", "v_format_radix", "v_chars_iter"],
    kani=[],
    bounded_native=[dict(unit="format_number", bound="14 scripted calls (finite, infinite and out-of-range values x absent, negative, zero, positive and i64::MIN scales), each in a child process under a 10 s watchdog and a 2 GB address-space limit",
                         functions=["stdlib format_number through compiled VRL programs"],
                         text="format_number called from VRL returns promptly with exactly max(scale, 0) fraction digits and without panicking on the scripted calls"),
                    dict(unit="stdlib_watchdog", bound="90 scripted stdlib calls with empty / zero / negative / extreme arguments and empty-matching regexes, each compiled and run in a child process under a 10 s watchdog and a 2 GB address-space limit",
                         functions=["stdlib zip, sieve, replace, split, find, parse_regex_all, chunks, truncate, slice, format_int, format_number, flatten, unflatten, compact, parse_key_value, parse_csv, set/get/remove, the closure functions, match_datadog_query, redact, casing, ip_subnet, round/ceil/floor, ... (see WATCHDOG_PROGRAMS in /verif/replay/src/main.rs)"],
                         text="no contract reaches these loops (iterator adapters, regex, str): on the scripted calls every function ends with a value or an error - no hang, no unbounded growth, no panic")],
    trusted=["verus prelude formatnum.rs: String as a sequence of chars (push/truncate/len), Decimal/f64 Display produce at most one '.', split('.') yields one or two parts for such a text, rust_decimal from_f64 may answer None",
             "the grouping section of format_number (chars/skip/enumerate/filter + insert_str) is replaced by an opaque call that only touches the integral part: NOT verified (it is linear in the integral part by inspection)",
             "a `for` over a Range terminates (vstd); a positive scale is honoured literally, so the output is proportional to the scale's value, not to its encoded size (by design of the function)"],
    not_covered=["every stdlib function other than format_number and format_int: no termination or time bound is proved (str/regex/chrono/serde internals are outside both verifiers)",
                 "wall-clock bounds: contracts bound iteration counts and output sizes, not time"],
    technique="contract-based deductive verification (Verus on the mechanically extracted real body; loop invariant over the ghost range iterator)",
)

PROPS["C03"] = dict(
    level="proof",
    level_text="PARTIAL (one function of ~200 under contract, ~70 more under a bounded stand-in): proof obligations on the extracted real body of SliceFn::type_def that every value the runtime slice() can return (its contract is proved under C28) belongs to the declared type; one obligation FAILS on the tree as given and is recorded as a known finding. No other stdlib function's signature is decided.",
    text="declared type vs returned value for stdlib slice: SliceFn::type_def extracted and checked by Verus against an element-level model of array types (known indices + unknown) and the runtime contract of slice (sub-array [s, e))",
    verus=["v_slice_type"],
    kani=[],
    bounded_native=[dict(unit="stdlib_signatures", bound="96 stdlib calls with one argument (first or later position) typed only at runtime x 20 argument values of every kind (numbers, strings, arrays, objects, null, boolean, float, timestamp): 1920 calls",
                         functions=["Function::compile(..).type_def vs resolve for ~70 stdlib functions (see SIGNATURE_CALLS in /verif/replay/src/main.rs)"],
                         text="no contract reaches the ~200 type_def implementations: on the stated domain a call with a runtime-typed argument either errors (coalesced by `?? \"fallback\"`) or returns a value of the kind the compiler reports (independent membership predicate), and never panics"),
                    dict(unit="stdlib_signatures_known", bound="the 6 calls of the recorded finding x the same 20 values (120 calls)",
                         functions=["flatten, compact, mod, set, remove, parse_regex with a runtime-typed first argument"],
                         text="the case class of the recorded finding, kept apart so that any other call still alarms")],
    trusted=["verus prelude slicetypes.rs: an array type = top-level members + kind of each known index + kind of the other indices, element kinds compared at their top-level tag; TypeDef::union/or_array/or_bytes/is_array/is_bytes contracts (Kind algebra; its scalar fragment is decided under C19)",
             "the runtime behaviour of slice is the contract proved under C28 (sub-sequence [s, e) of the argument)"],
    not_covered=["every stdlib function other than slice (~200 type_def implementations, parameter kind checks, return_kind bitmasks): NOT decided",
                 "merge(deep: true) is documented in the source as unsound (TODO in MergeFn::type_def, upstream issue 13597): nested object kinds are not modelled, no unit decides it"],
    technique="contract-based deductive verification (Verus on the mechanically extracted real body)",
)

PROPS["C17"] = dict(
    level="proof",
    text="target faults are contained: every vrl call site of the embedder's Target (Query::resolve, assignment Target::insert, del, exists, unnest, Runtime::resolve) verified by Verus on the extracted real body against a target whose every answer (value, nothing, fault) is arbitrary",
    verus=["v_target_ops"],
    kani=[],
    scans=["target_call_sites"],
    trusted=["verus prelude interp.rs/target.rs: TargetObj = the embedder's `dyn Target` with uninterpreted read answers and a ghost log of insert/remove operations and their outcomes",
             "'a rejected write leaves the target unchanged' is the embedder's obligation; what vrl owes (one operation, no retry, no write elsewhere, no panic) is what is proved",
             "std: Result::ok, Option::flatten (assume_specification), Option::cloned/unwrap_or/is_some (vstd)",
             "Context::new bundles the three borrows; running the program inside Runtime::resolve is the child contract resolve_with"],
    not_covered=["metadata vs event prefix handling inside the embedder", "unnest_root (value-level clone/remove/insert) is opaque"],
    technique="contract-based deductive verification (Verus on mechanically extracted real bodies)",
)

PROPS["C15"] = dict(
    level="proof",
    text="read-only paths: the compile-time guard. OwnedSegment::can_start_with, OwnedTargetPath::can_start_with, CompileConfig::is_read_only_path (loop over all entries, unbounded) and assignment::verify_mutable verified by Verus on the extracted real bodies: a write is accepted only if it can not reach any read-only location, counting negative/non-negative index aliasing",
    verus=["v_read_only"],
    kani=[],
    scans=["target_call_sites", "read_only_guards"],
    trusted=["verus prelude readonly.rs: field names abstracted as ids; BTreeSet<ReadOnlyPath> as its iteration sequence; derived PartialEq on OwnedTargetPath",
             "callee contract assumed: generic ValuePath::can_start_with = pairwise OwnedSegment::can_start_with over the shorter path (iterator plumbing in src/path/mod.rs)",
             "seg_may_alias is the aliasing relation implied by the C18 array semantics (spec_insert): same-sign distinct indices never address the same element, mixed-sign ones may",
             "frame: the only target mutations are assignment Target::insert and del (scan target_call_sites), each guarded at compile time (scan read_only_guards)"],
    not_covered=["the runtime half (that Target::insert/target_remove at an accepted path leave the read-only value unchanged on the embedder's target) rests on C18's laws for Value and on the embedder for other targets",
                 "non-recursive entries protect the path itself, not the values below it (the code's documented rule)"],
    technique="contract-based deductive verification (Verus on mechanically extracted real bodies, for-loop invariant)",
)

PROPS["C04"] = dict(
    level="proof",
    text="panic-freedom as a by-product of every unit: each Verus unit discharges the body-safety obligations of its function (arithmetic overflow, index bounds, unwrap/expect/unreachable!, callee preconditions, loop termination) and each Kani unit discharges every reachable CBMC built-in check (panics, overflow checks, out-of-bounds, invalid memory) of the code it exercises, for all inputs of its domain",
    verus=["v_format_radix", "v_format_number", "v_find", "v_chars_iter", "v_crud_vec", "v_closure_runner", "v_closure_callers", "v_op_resolve", "v_nodes", "v_value_error_from", "v_target_ops", "v_read_only"],
    kani=["c10_int_cmp", "c10_float_cmp", "c10_mixed_eq", "c11_int_arith", "c11_int_rem_class", "c11_int_div_class", "c11_float_add", "c11_float_sub",
          "c11_float_div_class", "c11_float_rem_class", "c11_mixed_add_sub", "c11_mixed_div_class", "k_abs_int", "k_abs_float", "k_to_int_scalar", "k_to_float_scalar",
          "k_try_and_table", "k_try_boolean", "k_ipv4_mask", "k_ipv6_mask"],
    kani_quick=["k_ipv4_mask", "k_ipv6_mask", "c10_int_cmp", "c11_int_arith", "c11_int_rem_class", "c11_int_div_class", "c11_float_div_class", "c11_mixed_div_class", "k_abs_int", "k_abs_float", "k_to_int_scalar", "k_to_float_scalar"],
    bounded_native=[dict(unit="compile_small_sources", bound="all 928232 source texts over a 13-letter alphabet (quote, backslash, newline, no-break space, a . = space { ' } ( 0) up to length 5, bare and as string / raw-string / regex / timestamp literals",
                         bound_thorough="all 10581850 source texts over the same 13-letter alphabet: bare up to length 6, as string literals up to length 5, as raw-string / regex / timestamp literals up to length 4",
                         functions=["lexer (src/parser/lex.rs incl. unescape_string_literal), LALRPOP parser, compiler, diagnostic::Formatter, Runtime::resolve"],
                         text="no contract reaches the lexer, the generated parser or the diagnostics renderer (str slicing, generated code): on the stated domain compiling, rendering the diagnostics and running the accepted programs never panics"),
                    dict(unit="stdlib_watchdog", bound="88 scripted stdlib calls with empty / zero / negative / extreme arguments, each in a child process (10 s, 2 GB)",
                         functions=["~60 stdlib functions outside the units (see WATCHDOG_PROGRAMS in /verif/replay/src/main.rs)"],
                         text="on the scripted calls no stdlib function panics the host")],
    trusted=["panic-freedom is claimed only for the functions listed under functions_under_contract, under each unit's stated preconditions (e.g. non-empty blocks, len + |index| < isize::MAX)"],
    not_covered=["lexer, LALRPOP parser, diagnostics formatter, grok, protobuf and ~180 stdlib functions are UNVERIFIED for panics",
                 "memory/stack exhaustion (out of scope by the property)", "Kani does not prove termination"],
    technique="contract-based deductive verification (aggregate of the safety obligations of all Verus and Kani units)",
)

PROPS["C19"] = dict(
    level="proof",
    text="type abstraction. Scalar fragment (Kani, complete: all 2^8 x 2^8 pairs of scalar kinds, loop-free): union/merge contain every member of both operands, the subtype test agrees with membership, the kind of a scalar value is exactly its kind. "
         "Kind-level merging of collection kinds (Verus on the extracted real bodies of Kind::merge_primitives, merge_objects, merge_keep, union): under the union strategy the merged kind admits every scalar member, every object and every array either operand admits, given that law for Collection::merge. The unknown part (Verus on the extracted real bodies of Unknown::merge, Infinite::merge, Infinite::covering, Infinite::any): under the union strategy the merged unknown kind admits every element value either side admits, for exact/exact, infinite/infinite and exact/infinite in both orders (the last failed on the tree as given)",
    kani=["k_kind_union_scalar", "k_kind_superset_scalar", "k_kind_of_scalar_value"],
    verus=["v_kind_merge", "v_unknown_merge"],
    bounded_native=[dict(unit="kind_union", bound="23 object/array/scalar kinds (empty, exact, any, json / timestamp / integer unknowns, nested one level, mixed with null) pairwise x 19 values, judged by an independent membership predicate",
                         functions=["Kind::union -> Collection::merge -> Unknown::merge, Kind::is_superset, Kind::from(&Value)"],
                         text="Collection::merge itself (BTreeMap walk over known fields) is only assumed by the Verus unit: on the stated domain a value of either operand's kind belongs to the union, and a kind accepted by is_superset admits every value of the other"),
                    dict(unit="kind_crud", bound="20 kinds x the listed values they admit x 15 paths (fields, nested, positive/negative/out-of-range indices) x 4 inserted (value, kind) pairs x prune on/off, minus the two finding classes: 3465 cases; a panic of a type-level operation is a failing case",
                         functions=["Kind::at_path / insert (insert_recursive) / remove against Value::get / insert / remove"],
                         text="type-level get / insert / remove are out of both verifiers' reach (BTreeMap-backed recursion): on the stated domain what a value has at a path belongs to the type's view of the path, and the value after insertion / removal belongs to the type after insertion / removal (independent membership predicate)"),
                    dict(unit="kind_crud_optional_elems", bound="the same domain restricted to the array kinds with optional known elements ([integer?], [integer, string?], {a: [integer?]}; 840 cases)",
                         functions=["Kind::at_path / insert / remove on arrays whose known elements may be absent"],
                         text="the case class of the second recorded finding, kept apart so that any other failure of kind_crud is reported"),
                    dict(unit="kind_crud_neg_insert", bound="the same domain restricted to operations whose last segment is a negative index before the start of a non-empty array (105 cases)",
                         functions=["Kind::insert_recursive, exactly-known array, negative index"],
                         text="the case class of the recorded finding, kept apart so that any other failure of kind_crud is reported")],
    trusted=["verus prelude kindmerge.rs: collections are abstract; Collection::merge under the union strategy is ASSUMED to admit every value either operand admits (checked only on the bounded domain kind_union); Option::or by definition; Kind::clone is the identity",
             "verus prelude unknownmerge.rs: an element value is abstracted to the set of type tags occurring in it; an infinite kind admits a value iff all its tags are states of the kind; Kind::from(Infinite) has that membership; Kind::is_superset is sound (Ok implies inclusion; its scalar fragment is decided by Kani); removing `undefined` changes no membership of a value; Kind::merge_keep admits both operands (v_kind_merge)"],
    not_covered=["Collection::merge (the BTreeMap walk over known fields), and the type-level path operations at_path / insert / remove over BTreeMap-backed collections: symbolic collection kinds are out of CBMC's reach here (rule 1) and BTreeMap iteration is outside Verus' subset",
                 "so the path-operation clauses of C19 (get/insert/remove on types) are NOT decided by this check"],
)

PROPS["C12"] = dict(
    level="proof",
    text="compile-time constants vs runtime values, the pieces that are per-function contracts (Verus on extracted real bodies): Details::merge keeps a constant only if both sides agree; Variable::resolve_constant is the binding's constant; Target::insert_type_def records the rhs constant only for whole-variable assignments and changes no other variable; DelFn::type_info drops the constant of a variable it deletes from; Op::resolve_constant folds + - * / with exactly the helper Op::resolve calls at runtime; Op::type_info consults operand constants in the state the operand runs in (divisor after the left operand's effects)",
    verus=["v_constants", "v_op_constant", "v_assign_types", "v_op_types"],
    kani=[],
    trusted=["verus prelude typestate.rs: LocalEnv bindings as a ghost map (HashMap get/insert contracts), TypeDef/Kind opaque", "child contracts: Expr::resolve_constant = uninterpreted spec_const; arithmetic helpers are deterministic functions (spec_try_*), their values are decided under C10/C11",
             "the store-agreement invariant (every recorded constant equals the runtime variable) and its preservation by all other nodes is the paper induction of DESIGN section 2; only the listed nodes are machine-checked"],
    not_covered=["closures: FunctionCall::type_info ignores what a closure body assigns (`x = 2; for_each([1]) -> |_i, v| { x = 0 }; 10 / x` compiles as infallible and divides by zero) - observed by hand, upstream issue 13782, no unit decides it",
                 "constants of event/metadata paths (ExternalEnv target value), IfStatement/Block merging (delegates to Details::merge via LocalEnv::merge, which is HashMap iteration)", "literal-only argument checks of stdlib functions"],
    technique="contract-based deductive verification (Verus on mechanically extracted real bodies)",
)

PROPS["C16"] = dict(
    bounded_native=[dict(unit="reported_paths", bound="11 scripted programs run against a recording Target", functions=["Compiler (dispatch over the whole AST)"], text="the compiler's dispatch from AST nodes to compile_query/compile_assignment is out of reach: every recorded runtime read/write is covered by a reported path on the scripted programs")],
    level="proof",
    text="reported target queries/assignments: Compiler::compile_query reports every external query it builds with exactly the runtime prefix+path; Assignment::targets lists every target written; at runtime each access site (Query::resolve, Target::insert, del, exists, unnest) touches exactly its own path (or the root of its prefix) - so every runtime location is equal to, or a descendant/ancestor of, a reported path. Verus on extracted real bodies + frame scan",
    verus=["v_reported_paths", "v_target_ops"],
    kani=[],
    scans=["reported_paths_frame", "target_call_sites"],
    trusted=["verus prelude compiler_q.rs (Compiler with the two report lists; compile_query_target as a child contract that only appends)",
             "frame (syntactic scan): Query values are only constructed in compile_query; compile_assignment pushes every external target of Assignment::targets(); ProgramInfo is filled from the two lists",
             "the literal `get` rule (event root pushed for calls named get) is read, not verified"],
    not_covered=["that every AST query node is compiled through compile_query (Compiler::compile_expr dispatch, whole-compiler bookkeeping)", "dynamic paths inside stdlib functions (get/set/remove with runtime paths) beyond the `get` rule"],
    technique="contract-based deductive verification (Verus on mechanically extracted real bodies) + syntactic frame scan",
)

TY_TRUSTED = [
    "verus prelude optypes.rs: kinds as sets of members; contracts of the one-line TypeDef/Kind methods used by the typing rules (is_*, union, fallible_unless, with_kind, or_null, ...) are assumed (the scalar Kind algebra underneath is decided by the C19 units)",
    "op_table: the kind-level behaviour of try_add/try_sub/try_mul/try_lt.. (which result variant, or a type error, for each pair of operand variants) is checked on the real helpers by the Kani units k_optable_* for the heap-free variants (thorough tier) and by the C10/C11 units for numbers; for byte strings, timestamps and collections it is read from the code (rule 1b)",
    "child contracts: an operand's type/state/constant are uninterpreted functions of the incoming state (structural induction, DESIGN section 2)",
]
TY_NOT_COVERED = [
    "this is a PARTIAL check of the property: it decides the typing rules of binary operators, if/else, `!` and blocks only",
    "not covered: stdlib function type definitions (C03), collection kinds and type-level path insert/remove (beyond C19's scalar fragment), Query/Variable/Assignment typing over TypeState, Block scoping, closures, progressive type checking and pending-fallibility bookkeeping in compiler.rs, Program::final_type_info",
]
PROPS["C01"] = dict(
    level="proof",
    level_text="PARTIAL: proof (Verus on the extracted real bodies) that the typing rules of binary operators, if/else and `!` are sound w.r.t. the runtime helpers' kind table: every value the runtime can produce for operands of the operand kinds belongs to the reported kind. Does not decide type soundness of whole programs.",
    text="type soundness, operator/control-flow core: Op::type_info, IfStatement::type_info, Not::type_info against the kind table of the runtime helpers",
    verus=["v_op_types", "v_control_types", "v_block_types", "v_assign_types", "v_constants"],
    bounded_native=[dict(unit="op_typing", bound="12 operators x 31 x 31 operand kind sets over {string, integer, float, boolean, null} x representative values, plus 10 scripted programs whose operands reassign variables or whose branches assign different constants",
                         functions=["whole pipeline: compile (type_info of Op/If/Block/Assignment, LocalEnv::merge) then Runtime::resolve"],
                         text="programs accepted without error handling run without error and their result lies in the reported kind, on the stated domain")],
    kani=["k_optable_add", "k_optable_sub", "k_optable_mul", "k_optable_lt"],
    kani_quick=[],
    trusted=TY_TRUSTED, not_covered=TY_NOT_COVERED,
    technique="contract-based deductive verification (Verus on mechanically extracted real bodies; Kani for the helpers' kind table)",
)
PROPS["C02"] = dict(
    level="proof",
    level_text="PARTIAL: proof (Verus on the extracted real bodies) that binary operators, if/else and `!` are typed infallible only when the runtime helper cannot fail on any operands of the operand kinds (the documented NaN case excepted; `/` only with a constant non-zero integer or normal float divisor). Does not decide infallibility of whole programs.",
    text="infallible-never-fails, operator/control-flow core: fallibility component of Op::type_info, IfStatement::type_info, Not::type_info",
    verus=["v_op_types", "v_control_types", "v_block_types"],
    bounded_native=[dict(unit="op_typing", bound="12 operators x 31 x 31 operand kind sets over {string, integer, float, boolean, null} x representative values, plus 10 scripted programs whose operands reassign variables or whose branches assign different constants",
                         functions=["whole pipeline: compile (type_info of Op/If/Block/Assignment, LocalEnv::merge) then Runtime::resolve"],
                         text="programs accepted without error handling run without error and their result lies in the reported kind, on the stated domain")],
    kani=["k_optable_add", "k_optable_sub", "k_optable_mul", "k_optable_lt"],
    kani_quick=[],
    trusted=TY_TRUSTED, not_covered=TY_NOT_COVERED + ["the runtime half (errors only arise where a node is typed fallible, abort/return routing) is C06-C09/C17"],
    technique="contract-based deductive verification (Verus on mechanically extracted real bodies; Kani for the helpers' kind table)",
)

HOOK_COMMITS = ["8978857", "33091a8", "aaadb43"]
