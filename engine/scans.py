"""Syntactic frame scans over /repo/src. A failed scan means "the code moved out from under a
contract" => exit 2 (undecided), never a VIOLATION."""
import os
import re

from . import common as C

SCANS = {}


def scan(name):
    def deco(f):
        SCANS[name] = f
        return f
    return deco


def run_scan(name):
    try:
        return SCANS[name]()
    except Exception as ex:  # pragma: no cover
        return False, "scan crashed: %r" % (ex,)


def src_files(sub="src"):
    for root, _d, files in os.walk(os.path.join(C.REPO, sub)):
        for f in files:
            if f.endswith(".rs"):
                yield os.path.join(root, f)
