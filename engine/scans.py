"""Syntactic frame scans over /repo/src. A failed scan means "the code moved out from under a
contract" => exit 2 (undecided), never a VIOLATION."""
import os
import re

from . import common as C

SCANS = {}


def scan(name):
    def deco(f):
        SCANS[name] = f
        return f
    return deco


def run_scan(name):
    try:
        return SCANS[name]()
    except Exception as ex:  # pragma: no cover
        return False, "scan crashed: %r" % (ex,)


def src_files(sub="src"):
    for root, _d, files in os.walk(os.path.join(C.REPO, sub)):
        for f in files:
            if f.endswith(".rs"):
                yield os.path.join(root, f)


def _enum_variants(path, enum_name):
    from . import extract as X
    src = C.read(os.path.join(C.REPO, path))
    m = X.mask(src)
    mm = re.search(r"\benum\s+" + enum_name + r"\b[^{;]*\{", m)
    if not mm:
        return None
    ob = mm.end() - 1
    cb = X.match_brace(m, ob)
    body = m[ob + 1:cb]
    # top-level variant names
    names, depth = [], 0
    for tok in re.finditer(r"[{}()\[\]]|\b([A-Z][A-Za-z0-9_]*)\b", body):
        t = tok.group(0)
        if t in "{([":
            depth += 1
        elif t in "})]":
            depth -= 1
        elif depth == 0 and tok.group(1):
            pre = body[:tok.start()].rstrip()
            if pre == "" or pre.endswith(",") or pre.endswith("]"):
                names.append(tok.group(1))
    return names


@scan("expr_variants")
def expr_variants():
    """The node-kind enumeration the induction relies on: every Expr / container::Variant /
    Opcode variant is one this framework has a unit (or a leaf argument) for."""
    want = {
        ("src/compiler/expression.rs", "Expr"): ["Literal", "Container", "IfStatement", "Op", "Assignment", "Query", "FunctionCall",
                                                  "Variable", "Noop", "Unary", "Abort", "Return"],
        ("src/compiler/expression/container.rs", "Variant"): ["Group", "Block", "Array", "Object"],
        ("src/compiler/expression/unary.rs", "Variant"): ["Not"],
        ("src/parser/ast.rs", "Opcode"): ["Mul", "Div", "Add", "Sub", "Or", "And", "Err", "Ne", "Eq", "Ge", "Gt", "Le", "Lt", "Merge"],
        ("src/compiler/expression_error.rs", "ExpressionError"): ["Abort", "Return", "Error", "Fallible", "Missing"],
    }
    for (path, en), exp in want.items():
        got = _enum_variants(path, en)
        if got != exp:
            return False, "%s enum %s changed: %s (contracts written for %s)" % (path, en, got, exp)
    return True, "Expr(12), container::Variant(4), unary::Variant(1), Opcode(14), ExpressionError(5) as contracted"


@scan("closure_callers")
def closure_callers():
    """Closure bodies are only ever run through closure::Runner (so the Runner contract covers the
    five closure-taking stdlib functions): every `block.resolve(` in src/stdlib is the runner
    argument of `closure::Runner::new(variables, |ctx| block.resolve(ctx))`."""
    total, wrapped, files = 0, 0, []
    for f in src_files("src/stdlib"):
        s = C.read(f)
        a = len(re.findall(r"\bblock\s*\.\s*resolve\s*\(", s))
        b = len(re.findall(r"Runner::new\(\s*variables\s*,\s*\|ctx\|\s*block\.resolve\(ctx\)\s*\)", s))
        total += a
        wrapped += b
        if a:
            files.append(os.path.basename(f))
        if a != b:
            return False, "%s: %d closure block evaluations but %d wrapped in closure::Runner" % (os.path.relpath(f, C.REPO), a, b)
    if total == 0:
        return False, "no closure block evaluation found in src/stdlib (anchor lost)"
    return True, "%d closure block evaluations, all through closure::Runner::new (%s)" % (total, ", ".join(sorted(files)))


@scan("mod_delegates")
def mod_delegates():
    from . import extract as X
    try:
        got = X.find_fn(os.path.join(C.REPO, "src/stdlib/mod_func.rs"), None, "r#mod")
    except Exception as ex:
        return False, "r#mod not found: %s" % ex
    body = re.sub(r"\s+", "", got["body"])
    if body != "letresult=value.try_rem(modulus)?;Ok(result)":
        return False, "stdlib mod no longer just delegates to try_rem: %s" % got["body"].strip()[:200]
    return True, "mod(value, modulus) == value.try_rem(modulus)? (body sha %s)" % got["body_sha"][:12]


@scan("target_call_sites")
def target_call_sites():
    """Frame for C15/C16/C17: the files in /repo/src that call the embedder's Target operations."""
    want = {"src/compiler/expression/query.rs", "src/compiler/expression/assignment.rs", "src/stdlib/del.rs",
            "src/stdlib/exists.rs", "src/stdlib/unnest.rs", "src/compiler/runtime.rs"}
    allowed_defs = {"src/compiler/target.rs", "src/compiler/test_util.rs", "src/compiler/function.rs"}
    got = set()
    for f in src_files("src"):
        rel = os.path.relpath(f, C.REPO)
        s = C.read(f)
        # strip cfg(test) modules crudely: only look before `#[cfg(test)]`
        cut = s.find("#[cfg(test)]")
        body = s if cut < 0 else s[:cut]
        if re.search(r"\.\s*target_(get|get_mut|insert|remove)\s*\(", body):
            got.add(rel)
    extra = got - want - allowed_defs
    if extra:
        return False, "new call site(s) of Target operations without a contract: %s" % sorted(extra)
    return True, "Target operations are called from %s" % sorted(got & want)


@scan("read_only_guards")
def read_only_guards():
    """Both target-mutating constructs are guarded by the read-only check at compile time."""
    a = C.read(os.path.join(C.REPO, "src/compiler/expression/assignment.rs"))
    cut = a.find("#[cfg(test)]")
    a = a if cut < 0 else a[:cut]
    n = len(re.findall(r"verify_mutable\(\s*&", a))
    if n < 3:
        return False, "Assignment::new calls verify_mutable %d time(s); contract expects the single target and both infallible targets to be checked" % n
    d = C.read(os.path.join(C.REPO, "src/stdlib/del.rs"))
    if not re.search(r"if let Some\(target_path\) = query\.external_path\(\)\s*&&\s*ctx\.is_read_only_path\(&target_path\)\s*\{\s*return Err", d):
        return False, "Del::compile no longer rejects read-only external paths before building DelFn"
    f = C.read(os.path.join(C.REPO, "src/compiler/function.rs"))
    if not re.search(r"pub fn is_read_only_path\(&self, path: &OwnedTargetPath\) -> bool \{\s*self\.config\.is_read_only_path\(path\)\s*\}", f):
        return False, "FunctionCompileContext::is_read_only_path no longer delegates to CompileConfig::is_read_only_path"
    return True, "verify_mutable called %d times in Assignment::new; Del::compile guarded; FunctionCompileContext delegates" % n


@scan("reported_paths_frame")
def reported_paths_frame():
    """C16 frame: queries are only built by Compiler::compile_query; compile_assignment reports every
    external target of Assignment::targets(); ProgramInfo is filled from those two lists."""
    bad = []
    n_new = 0
    for f in src_files("src"):
        rel = os.path.relpath(f, C.REPO)
        s = C.read(f)
        cut = s.find("#[cfg(test)]")
        body = s if cut < 0 else s[:cut]
        k = len(re.findall(r"\bQuery::new\(", body))
        if k and rel not in ("src/compiler/compiler.rs", "src/compiler/expression/query.rs", "src/compiler/test_util.rs"):  # test_util is cfg(any(test, feature = "test"))
            bad.append("%s constructs a Query outside compile_query" % rel)
        n_new += k if rel == "src/compiler/compiler.rs" else 0
    c = C.read(os.path.join(C.REPO, "src/compiler/compiler.rs"))
    if n_new != 1:
        bad.append("compiler.rs constructs Query in %d places (contract: only compile_query)" % n_new)
    if not re.search(r"for target in assignment\.targets\(\) \{\s*if let assignment::Target::External\(path\) = target \{\s*self\.external_assignments\.push\(path\);", c):
        bad.append("compile_assignment no longer reports every external target of assignment.targets()")
    if not re.search(r"target_queries: compiler\.external_queries,\s*target_assignments: compiler\.external_assignments,", c):
        bad.append("ProgramInfo is no longer filled from external_queries/external_assignments")
    if bad:
        return False, "; ".join(bad)
    return True, "Query::new only in compile_query; compile_assignment reports all external targets; ProgramInfo filled from both lists"
