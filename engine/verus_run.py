"""Verus units: placeholder until the extractor lands."""


def run_verus_units(pid, names, tier, log):
    return [], ([] if not names else ["verus runner not built yet"]), []


def verus_replay(pid, u, log):
    return dict(kind="verus", confirmed_on_real_code=False)
