"""Mechanical extractor: pulls real function bodies out of /repo/src on every run.

No Rust parser is available offline, so this is a small lexer (comments, strings, raw strings,
chars vs lifetimes) + brace matching.  The only transformations applied to a body are the
*declared* rewrites of the unit (each must match, each is logged in the extraction ledger) and the
ordinal-keyed insertion of loop contracts / proof blocks.  Anything else => ExtractError (exit 2).
"""
import re

from . import common as C


class ExtractError(Exception):
    pass


def mask(src):
    """Return text of equal length where comment bodies and string/char contents are blanked."""
    out = list(src)
    i, n = 0, len(src)

    def blank(a, b):
        for k in range(a, b):
            if out[k] != "\n":
                out[k] = " "

    while i < n:
        c = src[i]
        if src.startswith("//", i):
            j = src.find("\n", i)
            j = n if j < 0 else j
            blank(i, j)
            i = j
        elif src.startswith("/*", i):
            depth, j = 1, i + 2
            while j < n and depth:
                if src.startswith("/*", j):
                    depth += 1
                    j += 2
                elif src.startswith("*/", j):
                    depth -= 1
                    j += 2
                else:
                    j += 1
            blank(i, j)
            i = j
        elif c == "r" and re.match(r'r#*"', src[i:i + 12]) and (i == 0 or not (src[i - 1].isalnum() or src[i - 1] == "_")):
            m = re.match(r'r(#*)"', src[i:])
            hashes = m.group(1)
            start = i + len(m.group(0))
            end = src.find('"' + hashes, start)
            if end < 0:
                raise ExtractError("unterminated raw string")
            blank(start, end)
            i = end + 1 + len(hashes)
        elif c == '"':
            j = i + 1
            while j < n and src[j] != '"':
                j += 2 if src[j] == "\\" else 1
            blank(i + 1, j)
            i = j + 1
        elif c == "'":
            m = re.match(r"'(\\u\{[0-9a-fA-F]+\}|\\x[0-9a-fA-F]{2}|\\.|[^\\'])'", src[i:i + 14])
            if m:
                blank(i + 1, i + len(m.group(0)) - 1)
                i += len(m.group(0))
            else:
                i += 1  # lifetime
        else:
            i += 1
    return "".join(out)


def match_brace(masked, open_idx):
    assert masked[open_idx] == "{"
    depth = 0
    for k in range(open_idx, len(masked)):
        ch = masked[k]
        if ch == "{":
            depth += 1
        elif ch == "}":
            depth -= 1
            if depth == 0:
                return k
    raise ExtractError("unbalanced braces")


def _norm(s):
    return re.sub(r"\s+", " ", s).strip()


def find_fn(path, impl_header, name, nth=0):
    """Locate `fn <name>` (nth occurrence) inside the item whose header contains `impl_header`
    (None = anywhere at any depth). Returns dict(sig, body, start_line, end_line, body_sha)."""
    src = C.read(path)
    m = mask(src)
    lo, hi = 0, len(src)
    if impl_header:
        # header match on whitespace-normalised masked text
        pat = re.compile(r"\s+".join(re.escape(tok) for tok in impl_header.split()))
        mh = None
        for cand in pat.finditer(m):
            # must be followed (before any ';') by '{'
            ob = m.find("{", cand.end())
            semi = m.find(";", cand.end())
            if ob >= 0 and (semi < 0 or ob < semi):
                mh = cand
                lo, hi = ob, match_brace(m, ob)
                break
        if mh is None:
            raise ExtractError("%s: item header `%s` not found" % (path, impl_header))
    pat = re.compile(r"\bfn\s+" + re.escape(name) + r"\b")
    hits = [x for x in pat.finditer(m, lo, hi)]
    if len(hits) <= nth:
        raise ExtractError("%s: fn %s not found in `%s`" % (path, name, impl_header))
    h = hits[nth]
    # body open brace: first '{' at paren depth 0 after the parameter list
    k = h.end()
    depth = 0
    ob = None
    while k < hi:
        ch = m[k]
        if ch in "([":
            depth += 1
        elif ch in ")]":
            depth -= 1
        elif ch == "{" and depth == 0:
            ob = k
            break
        elif ch == ";" and depth == 0:
            raise ExtractError("%s: fn %s has no body" % (path, name))
        k += 1
    if ob is None:
        raise ExtractError("%s: fn %s body not found" % (path, name))
    cb = match_brace(m, ob)
    sig = _norm(src[h.start():ob])
    body = src[ob + 1:cb]
    return dict(path=path, name=name, sig=sig, body=body,
                start_line=src.count("\n", 0, h.start()) + 1, end_line=src.count("\n", 0, cb) + 1,
                body_sha=C.sha(body))


def strip_noise(body, ledger):
    """Drop attributes Verus does not know and doc comments (declared, always applied)."""
    new = re.sub(r"(?m)^[ \t]*#\[(allow|inline|must_use|expect)[^\]]*\][ \t]*\n", "", body)
    if new != body:
        ledger.append("dropped #[allow/inline/must_use/expect] attributes")
    new2 = re.sub(r"(?m)^[ \t]*///.*\n", "", new)
    if new2 != new:
        ledger.append("dropped doc comments")
    return new2


def apply_rewrites(body, rewrites, ledger, fn):
    for rw in rewrites:
        frm, to = rw["from"], rw["to"]
        if rw.get("regex"):
            new, cnt = re.subn(frm, to, body, flags=re.S)
        else:
            cnt = body.count(frm)
            new = body.replace(frm, to)
        want = rw.get("count")
        if cnt == 0 and not rw.get("optional"):
            raise ExtractError("%s: declared rewrite no longer matches (lost anchor): %r" % (fn, frm[:80]))
        if want is not None and cnt != want and not rw.get("optional"):
            raise ExtractError("%s: declared rewrite matched %d times, expected %d: %r" % (fn, cnt, want, frm[:80]))
        if cnt:
            ledger.append("rewrite x%d: %s  =>  %s   [%s]" % (cnt, _norm(frm)[:90], _norm(to)[:90], rw.get("why", "")))
        body = new
    return body


_LOOP_RE = re.compile(r"\b(while|for|loop)\b")


def loop_positions(body):
    """-> list of (keyword_idx, open_brace_idx, close_brace_idx) in source order."""
    m = mask(body)
    res = []
    for mm in _LOOP_RE.finditer(m):
        k = mm.end()
        depth = 0
        ob = None
        while k < len(m):
            ch = m[k]
            if ch in "([":
                depth += 1
            elif ch in ")]":
                depth -= 1
            elif ch == "{" and depth == 0:
                ob = k
                break
            elif ch == ";" and depth == 0:
                break
            k += 1
        if ob is not None:
            res.append((mm.start(), ob, match_brace(m, ob)))
    return res


def insert_loop_contracts(body, loops, ledger, fn):
    """loops: {ordinal: dict(spec="invariant ... decreases ...", start="proof{..}", end="proof{..}")}"""
    if not loops:
        if loop_positions(body):
            pass
        return body
    pos = loop_positions(body)
    if len(pos) != max(int(k) for k in loops) + 1 and len(pos) < max(int(k) for k in loops) + 1:
        raise ExtractError("%s: expected at least %d loops, found %d (lost anchor)" % (fn, max(int(k) for k in loops) + 1, len(pos)))
    if len(pos) != loops.get("_count", len(pos)):
        raise ExtractError("%s: loop count changed: %d, contract written for %d (lost anchor)" % (fn, len(pos), loops["_count"]))
    # apply from the last loop backwards so indices stay valid
    for ordn in sorted((int(k) for k in loops if k != "_count"), reverse=True):
        kw, ob, cb = pos[ordn]
        spec = loops[ordn] if ordn in loops else loops[str(ordn)]
        end = spec.get("end", "")
        start = spec.get("start", "")
        if end:
            body = body[:cb] + "\n" + end + "\n" + body[cb:]
        if start:
            body = body[:ob + 1] + "\n" + start + "\n" + body[ob + 1:]
        body = body[:ob] + "\n" + spec["spec"] + "\n" + body[ob:]
        ledger.append("loop %d: injected invariant/decreases%s" % (ordn, " + proof hints" if (start or end) else ""))
    return body
