"""Mechanical extractor: pulls real function bodies out of /repo/src on every run.

No Rust parser is available offline, so this is a small lexer (comments, strings, raw strings,
chars vs lifetimes) + brace matching.  The only transformations applied to a body are the
*declared* rewrites of the unit (each must match, each is logged in the extraction ledger) and the
ordinal-keyed insertion of loop contracts / proof blocks.  Anything else => ExtractError (exit 2).
"""
import re

from . import common as C


class ExtractError(Exception):
    pass


def mask(src):
    """Return text of equal length where comment bodies and string/char contents are blanked."""
    out = list(src)
    i, n = 0, len(src)

    def blank(a, b):
        for k in range(a, b):
            if out[k] != "\n":
                out[k] = " "

    while i < n:
        c = src[i]
        if src.startswith("//", i):
            j = src.find("\n", i)
            j = n if j < 0 else j
            blank(i, j)
            i = j
        elif src.startswith("/*", i):
            depth, j = 1, i + 2
            while j < n and depth:
                if src.startswith("/*", j):
                    depth += 1
                    j += 2
                elif src.startswith("*/", j):
                    depth -= 1
                    j += 2
                else:
                    j += 1
            blank(i, j)
            i = j
        elif c == "r" and re.match(r'r#*"', src[i:i + 12]) and (i == 0 or not (src[i - 1].isalnum() or src[i - 1] == "_")):
            m = re.match(r'r(#*)"', src[i:])
            hashes = m.group(1)
            start = i + len(m.group(0))
            end = src.find('"' + hashes, start)
            if end < 0:
                raise ExtractError("unterminated raw string")
            blank(start, end)
            i = end + 1 + len(hashes)
        elif c == '"':
            j = i + 1
            while j < n and src[j] != '"':
                j += 2 if src[j] == "\\" else 1
            blank(i + 1, j)
            i = j + 1
        elif c == "'":
            m = re.match(r"'(\\u\{[0-9a-fA-F]+\}|\\x[0-9a-fA-F]{2}|\\.|[^\\'])'", src[i:i + 14])
            if m:
                blank(i + 1, i + len(m.group(0)) - 1)
                i += len(m.group(0))
            else:
                i += 1  # lifetime
        else:
            i += 1
    return "".join(out)


def match_brace(masked, open_idx):
    assert masked[open_idx] == "{"
    depth = 0
    for k in range(open_idx, len(masked)):
        ch = masked[k]
        if ch == "{":
            depth += 1
        elif ch == "}":
            depth -= 1
            if depth == 0:
                return k
    raise ExtractError("unbalanced braces")


def _norm(s):
    return re.sub(r"\s+", " ", s).strip()


def find_fn(path, impl_header, name, nth=0):
    """Locate `fn <name>` (nth occurrence) inside the item whose header contains `impl_header`
    (None = anywhere at any depth). Returns dict(sig, body, start_line, end_line, body_sha)."""
    src = C.read(path)
    m = mask(src)
    lo, hi = 0, len(src)
    if impl_header:
        # header match on whitespace-normalised masked text
        pat = re.compile(r"\s+".join(re.escape(tok) for tok in impl_header.split()))
        mh = None
        for cand in pat.finditer(m):
            # must be followed (before any ';') by '{'
            ob = m.find("{", cand.end())
            semi = m.find(";", cand.end())
            if ob >= 0 and (semi < 0 or ob < semi):
                mh = cand
                lo, hi = ob, match_brace(m, ob)
                break
        if mh is None:
            raise ExtractError("%s: item header `%s` not found" % (path, impl_header))
    pat = re.compile(r"\bfn\s+" + re.escape(name) + r"\b")
    hits = [x for x in pat.finditer(m, lo, hi)]
    if len(hits) <= nth:
        raise ExtractError("%s: fn %s not found in `%s`" % (path, name, impl_header))
    h = hits[nth]
    # body open brace: first '{' at paren depth 0 after the parameter list
    k = h.end()
    depth = 0
    ob = None
    while k < hi:
        ch = m[k]
        if ch in "([":
            depth += 1
        elif ch in ")]":
            depth -= 1
        elif ch == "{" and depth == 0:
            ob = k
            break
        elif ch == ";" and depth == 0:
            raise ExtractError("%s: fn %s has no body" % (path, name))
        k += 1
    if ob is None:
        raise ExtractError("%s: fn %s body not found" % (path, name))
    cb = match_brace(m, ob)
    sig = _norm(src[h.start():ob])
    body = src[ob + 1:cb]
    return dict(path=path, name=name, sig=sig, body=body,
                start_line=src.count("\n", 0, h.start()) + 1, end_line=src.count("\n", 0, cb) + 1,
                body_sha=C.sha(body))


def strip_noise(body, ledger):
    """Drop attributes Verus does not know and doc comments (declared, always applied)."""
    new = re.sub(r"(?m)^[ \t]*#\[(allow|inline|must_use|expect)[^\]]*\][ \t]*\n", "", body)
    if new != body:
        ledger.append("dropped #[allow/inline/must_use/expect] attributes")
    new2 = re.sub(r"(?m)^[ \t]*///.*\n", "", new)
    if new2 != new:
        ledger.append("dropped doc comments")
    return new2


def apply_rewrites(body, rewrites, ledger, fn):
    for rw in rewrites:
        frm, to = rw["from"], rw["to"]
        if rw.get("regex"):
            new, cnt = re.subn(frm, to, body, flags=re.S)
        else:
            cnt = body.count(frm)
            new = body.replace(frm, to)
        want = rw.get("count")
        if cnt == 0 and not rw.get("optional"):
            raise ExtractError("%s: declared rewrite no longer matches (lost anchor): %r" % (fn, frm[:80]))
        if want is not None and cnt != want and not rw.get("optional"):
            raise ExtractError("%s: declared rewrite matched %d times, expected %d: %r" % (fn, cnt, want, frm[:80]))
        if cnt:
            ledger.append("rewrite x%d: %s  =>  %s   [%s]" % (cnt, _norm(frm)[:90], _norm(to)[:90], rw.get("why", "")))
        body = new
    return body


_LOOP_RE = re.compile(r"\b(while|for|loop)\b")


def loop_positions(body):
    """-> list of (keyword_idx, open_brace_idx, close_brace_idx) in source order."""
    m = mask(body)
    res = []
    for mm in _LOOP_RE.finditer(m):
        k = mm.end()
        depth = 0
        ob = None
        while k < len(m):
            ch = m[k]
            if ch in "([":
                depth += 1
            elif ch in ")]":
                depth -= 1
            elif ch == "{" and depth == 0:
                ob = k
                break
            elif ch == ";" and depth == 0:
                break
            k += 1
        if ob is not None:
            res.append((mm.start(), ob, match_brace(m, ob)))
    return res


def insert_loop_contracts(body, loops, ledger, fn):
    """loops: {ordinal: dict(spec="invariant ... decreases ...", start="proof{..}", end="proof{..}")}"""
    if not loops:
        if loop_positions(body):
            pass
        return body
    pos = loop_positions(body)
    ords = [int(k) for k in loops if k != "_count"]
    want = loops.get("_count", max(ords) + 1)
    if len(pos) == 0:
        # the function no longer has any loop: nothing to attach, and no invariant is needed
        ledger.append("loop contracts not injected: the body has no loop any more (contract written for %d)" % want)
        return body
    if len(pos) != want:
        raise ExtractError("%s: loop count changed: found %d, contract written for %d (lost anchor)" % (fn, len(pos), want))
    # apply from the last loop backwards so indices stay valid
    for ordn in sorted((int(k) for k in loops if k != "_count"), reverse=True):
        kw, ob, cb = pos[ordn]
        spec = loops[ordn] if ordn in loops else loops[str(ordn)]
        end = spec.get("end", "")
        start = spec.get("start", "")
        if end:
            body = body[:cb] + "\n" + end + "\n" + body[cb:]
        if start:
            body = body[:ob + 1] + "\n" + start + "\n" + body[ob + 1:]
        body = body[:ob] + "\n" + spec["spec"] + "\n" + body[ob:]
        if spec.get("before"):
            body = body[:kw] + spec["before"] + "\n" + body[kw:]
        ledger.append("loop %d: injected invariant/decreases%s" % (ordn, " + proof hints" if (start or end) else ""))
    return body


# ---------------------------------------------------------------------------------------------
# std-combinator desugaring (by the combinator's definition) and contract substitution for the
# one non-std closure-taking callee (`try_or`).  Purely syntactic; every application is logged.
R_OK, R_ERR = "core::result::Result::Ok", "core::result::Result::Err"
O_SOME, O_NONE = "core::option::Option::Some", "core::option::Option::None"


def _match_paren_fwd(m, i):
    op = m[i]
    cl = {"(": ")", "[": "]", "{": "}"}[op]
    d = 0
    for k in range(i, len(m)):
        if m[k] == op:
            d += 1
        elif m[k] == cl:
            d -= 1
            if d == 0:
                return k
    raise ExtractError("unbalanced %s" % op)


def _match_paren_back(m, i):
    cl = m[i]
    op = {")": "(", "]": "[", "}": "{"}[cl]
    d = 0
    for k in range(i, -1, -1):
        if m[k] == cl:
            d += 1
        elif m[k] == op:
            d -= 1
            if d == 0:
                return k
    raise ExtractError("unbalanced %s" % cl)


def receiver_start(m, dot):
    """m: masked text; dot: index of the '.' that starts `.method(`. Returns start index of the
    postfix-expression chain that is the receiver."""
    i = dot - 1
    while i >= 0 and m[i].isspace():
        i -= 1
    while True:
        # consume one primary (right to left)
        if i < 0:
            raise ExtractError("receiver not found")
        ch = m[i]
        if ch in ")]":
            i = _match_paren_back(m, i) - 1
            # a call: the callee identifier directly precedes the paren
            while i >= 0 and (m[i].isalnum() or m[i] == "_"):
                i -= 1
        elif ch == "}":
            ob = _match_paren_back(m, i)
            k = m.rfind("match", 0, ob)
            if k < 0:
                raise ExtractError("block receiver that is not a match expression")
            return k
        elif ch == "?":
            i -= 1
            continue
        elif ch.isalnum() or ch == "_" or ch == '"':
            if ch == '"':
                i -= 1
                while i >= 0 and m[i] != '"':
                    i -= 1
                i -= 1
            while i >= 0 and (m[i].isalnum() or m[i] == "_"):
                i -= 1
        else:
            raise ExtractError("unsupported receiver shape near %r" % m[max(0, i - 20):i + 1])
        # what precedes the primary?
        j = i
        if j >= 0 and m[j] == "?":
            continue
        if j >= 0 and m[j] == ".":
            i = j - 1
            while i >= 0 and m[i].isspace():
                i -= 1
            continue
        if j >= 1 and m[j] == ":" and m[j - 1] == ":":
            i = j - 2
            continue
        if j >= 0 and m[j] in "&*!":
            # unary prefix belongs to the receiver only for deref/ref; stop before it
            return j + 1
        # chained call formatted on the next line: "<ws> ." handled above; otherwise stop
        return j + 1


def _split_closure(arg):
    a = arg.strip()
    mm = re.match(r"^\|([^|]*)\|\s*(.*)$", a, flags=re.S)
    if not mm:
        return None, a
    return mm.group(1).strip(), mm.group(2).strip()


def desugar(body, methods, ledger, fn):
    """methods: list of names among or_else, map_err, try_or, map_or, map_unit. Applied until no
    occurrence is left, always rewriting the last occurrence first."""
    for _round in range(200):
        m = mask(body)
        best = None
        for meth in methods:
            name = {"map_unit": "map"}.get(meth, meth)
            for mm in re.finditer(r"\.\s*" + name + r"\s*\(", m):
                if best is None or mm.start() > best[1].start():
                    best = (meth, mm)
        if best is None:
            return body
        meth, mm = best
        op = mm.end() - 1
        cp = _match_paren_fwd(m, op)
        arg = body[op + 1:cp]
        rs = receiver_start(m, mm.start())
        recv = body[rs:mm.start()].strip()
        pat, cbody = _split_closure(arg)
        if meth == "or_else":
            if pat is None:
                raise ExtractError("%s: or_else without closure literal" % fn)
            new = "(match %s { %s(__v) => %s(__v), %s(%s) => %s })" % (recv, R_OK, R_OK, R_ERR, pat, cbody)
        elif meth == "map_err":
            if pat is None:
                if re.sub(r"\s+", "", arg) != "Into::into":
                    raise ExtractError("%s: map_err with unsupported argument %r" % (fn, arg))
                new = "(match %s { %s(__v) => %s(__v), %s(__e) => %s(value_error_into(__e)) })" % (recv, R_OK, R_OK, R_ERR, R_ERR)
            else:
                new = "(match %s { %s(__v) => %s(__v), %s(%s) => %s(%s) })" % (recv, R_OK, R_OK, R_ERR, pat, R_ERR, cbody)
        elif meth == "try_or":
            if pat is None or pat != "":
                raise ExtractError("%s: try_or without `||` closure literal" % fn)
            new = ("(match %s { Value::Null | Value::Boolean(false) => (match %s { %s(__v) => %s(__v), %s(__e) => %s(ValueError::Or(__e)) }), "
                   "__v => %s(__v) })") % (recv, cbody, R_OK, R_OK, R_ERR, R_ERR, R_OK)
        elif meth == "and_then":
            if pat is None:
                raise ExtractError("%s: and_then without closure literal" % fn)
            new = "(match %s { %s(%s) => %s, %s => %s })" % (recv, O_SOME, pat, cbody, O_NONE, O_NONE)
        elif meth == "map_or_else":
            # map_or_else(|| D, |x| E)
            depth, cut = 0, None
            am = mask(arg)
            for k, ch in enumerate(am):
                if ch in "([{":
                    depth += 1
                elif ch in ")]}":
                    depth -= 1
                elif ch == "," and depth == 0:
                    cut = k
                    break
            if cut is None:
                raise ExtractError("%s: map_or_else with unexpected arguments" % fn)
            p0, dflt = _split_closure(arg[:cut].strip())
            pat, cbody = _split_closure(arg[cut + 1:].strip().rstrip(","))
            if p0 is None or p0 != "" or pat is None:
                raise ExtractError("%s: map_or_else without closure literals" % fn)
            new = "(match %s { %s(%s) => %s, %s => %s })" % (recv, O_SOME, pat, cbody, O_NONE, dflt)
        elif meth == "map_or":
            # map_or(DEFAULT, |x| E)
            depth, cut = 0, None
            am = mask(arg)
            for k, ch in enumerate(am):
                if ch in "([{":
                    depth += 1
                elif ch in ")]}":
                    depth -= 1
                elif ch == "," and depth == 0:
                    cut = k
                    break
            if cut is None:
                raise ExtractError("%s: map_or with unexpected arguments" % fn)
            dflt = arg[:cut].strip()
            pat, cbody = _split_closure(arg[cut + 1:].strip().rstrip(","))
            if pat is None:
                raise ExtractError("%s: map_or without closure literal" % fn)
            new = "(match %s { %s(%s) => %s, %s => %s })" % (recv, O_SOME, pat, cbody, O_NONE, dflt)
        else:
            raise ExtractError("unknown desugaring %s" % meth)
        ledger.append("desugar .%s: `%s.%s(%s)` by definition%s" % (
            meth, _norm(recv)[:60], meth, _norm(arg)[:60],
            " (substituted by its Kani-verified functional contract)" if meth == "try_or" else ""))
        body = body[:rs] + new + body[cp + 1:]
    raise ExtractError("%s: desugaring did not terminate" % fn)


def desugar_let_chains(body, ledger, fn):
    """`if C1 && let P = E && C2 { B }` (no else) -> `if C1 { if let P = E { if C2 { B } } }`
    (edition-2024 let chain, by its definition: the conjuncts are evaluated left to right and the
    block runs iff all hold; without an else branch nesting is equivalent)."""
    for _ in range(50):
        m = mask(body)
        hit = None
        for mm in re.finditer(r"\bif\b", m):
            k, depth, amps, ob = mm.end(), 0, [], None
            while k < len(m):
                ch = m[k]
                if ch in "([":
                    depth += 1
                elif ch in ")]":
                    depth -= 1
                elif ch == "{" and depth == 0:
                    ob = k
                    break
                elif ch == ";" and depth == 0:
                    break
                elif m.startswith("&&", k) and depth == 0:
                    amps.append(k)
                k += 1
            if ob is None or not amps:
                continue
            cuts = [mm.end()] + [a + 2 for a in amps]
            ends = amps + [ob]
            conj = [body[a:b].strip() for a, b in zip(cuts, ends)]
            if not any(re.match(r"let\b", c) for c in conj):
                continue
            hit = (mm.start(), ob, conj)
            break
        if hit is None:
            return body
        st, ob, conj = hit
        cb = match_brace(m, ob)
        after = m[cb + 1:].lstrip()
        if after.startswith("else"):
            raise ExtractError("%s: let chain with else branch is not supported" % fn)
        inner = body[ob:cb + 1]
        new = inner
        for c in reversed(conj):
            new = "if %s %s" % (c, new if new is inner else "{ " + new + " }")
        ledger.append("desugar let chain: `%s` -> nested if" % _norm(" && ".join(conj))[:100])
        body = body[:st] + new + body[cb + 1:]
    raise ExtractError("%s: let-chain desugaring did not terminate" % fn)


def desugar_or_guard(body, ledger, fn):
    """`A | B | C if G => E` -> `A if G => E, B if G => E, C if G => E` (Verus rejects an or-pattern
    combined with a guard). Only simple path/identifier alternatives are handled."""
    for _ in range(50):
        m = mask(body)
        mm = re.search(r"(?m)^(\s*)((?:[A-Za-z_][\w:]*\s*\|\s*)+[A-Za-z_][\w:]*)\s+if\s", m)
        if not mm:
            return body
        indent = mm.group(1)
        pats = [p.strip() for p in mm.group(2).split("|")]
        # guard ends at `=>` at depth 0
        k, depth = mm.end(), 0
        arrow = None
        while k < len(m) - 1:
            ch = m[k]
            if ch in "([{":
                depth += 1
            elif ch in ")]}":
                depth -= 1
            elif m.startswith("=>", k) and depth == 0:
                arrow = k
                break
            k += 1
        if arrow is None:
            raise ExtractError("%s: or-pattern arm without =>" % fn)
        guard = body[mm.end():arrow].strip()
        # body: block or expression up to the arm-terminating comma
        j = arrow + 2
        while m[j].isspace():
            j += 1
        if m[j] == "{":
            end = match_brace(m, j) + 1
            arm_body = body[j:end]
            if end < len(m) and m[end] == ",":
                end += 1
        else:
            depth, e = 0, j
            while e < len(m):
                ch = m[e]
                if ch in "([{":
                    depth += 1
                elif ch in ")]}":
                    if depth == 0:
                        break
                    depth -= 1
                elif ch == "," and depth == 0:
                    break
                e += 1
            arm_body = body[j:e]
            end = e + 1 if e < len(m) and m[e] == "," else e
        new = "".join("%s%s if %s => %s,\n" % (indent, p, guard, arm_body) for p in pats)
        ledger.append("desugar or-pattern with guard: `%s if %s` -> %d arms" % (" | ".join(pats), _norm(guard)[:50], len(pats)))
        body = body[:mm.start()] + new.rstrip("\n") + body[end:]
    raise ExtractError("%s: or-guard desugaring did not terminate" % fn)
