"""Property check driver: runs the units registered for a property, decides, writes evidence."""
import json
import os
import re
import sys
import time

from . import common as C
from . import kani_run as K
from . import props as P
from . import verus_run as V
from . import scans as S

CANARY = "canary_arithmetic_must_fail"


def _budget(tier):
    return dict(per_harness=(900 if tier == "quick" else 2400), jobs=(12 if tier == "quick" else 8))


def run_kani_units(pid, names, tier, log):
    """-> list of unit result dicts, plus list of problems (undecided reasons)."""
    allh = K.all_harnesses()
    units, undecided = [], []
    metas = []
    for n in names:
        if n not in allh:
            undecided.append("kani harness %s not found in /verif/kani" % n)
            continue
        m = allh[n]
        if tier == "quick" and m["tier"] != "q":
            continue
        metas.append(m)
    if not metas:
        return units, undecided, []
    mods = sorted(set(m["module"] for m in metas) | {"arithmetic"})
    probs = K.check_hooks(mods)
    if probs:
        return units, undecided + probs, []
    # group by (features, float-flag)
    groups = {}
    for m in metas:
        groups.setdefault((m["features"], m["float"] == "1"), []).append(m)
    cmds = []
    b = _budget(tier)
    first = True
    for (feat, nofloat), hs in sorted(groups.items()):
        run_hs = list(hs)
        canary = None
        if first and CANARY in allh and allh[CANARY]["features"] == feat:
            canary = allh[CANARY]
            run_hs.append(canary)
        elif first and CANARY in allh:
            # canary lives in the `compiler` feature set; run it in its own tiny group
            res, out, wall, cmd = K.run_group([allh[CANARY]], allh[CANARY]["features"], True, 120, 2)
            cmds.append(cmd)
            r = res.get(allh[CANARY]["fqn"], {})
            if not (r.get("status") == "failed" and any(K.classify_failure(f[0]) == "canary" for f in r.get("failed", []))):
                undecided.append("kani canary did not fail: tool chain not trustworthy")
        first = False
        pht = b["per_harness"]
        for h in hs:
            if h.get("timeout"):
                pht = max(pht, int(h["timeout"])) if tier == "thorough" else pht
        log("kani: %d harness(es), features=%s nofloat=%s" % (len(run_hs), feat, nofloat))
        res, out, wall, cmd = K.run_group(run_hs, feat, nofloat, pht, b["jobs"])
        cmds.append(cmd)
        if "_build_error" in res:
            undecided.append("kani build failed or timed out: " + res["_build_error"][-1500:])
            continue
        if canary is not None:
            r = res.get(canary["fqn"], {})
            if not (r.get("status") == "failed" and any(K.classify_failure(f[0]) == "canary" for f in r.get("failed", []))):
                undecided.append("kani canary did not fail: tool chain not trustworthy")
        for h in hs:
            r = res[h["fqn"]]
            u = dict(unit=h["name"], backend="kani+cbmc+cadical", module=h["module"], fqn=h["fqn"],
                     functions=h["fn"].split(",") if h["fn"] else [], bounded=h["bounded"],
                     time_s=r["time"], cbmc_checks=r["checks"], cbmc_unreachable=r["unreachable"],
                     covers="%d/%d" % (r["covers_sat"], r["covers_total"]),
                     obligations=[dict(o) for o in h["obligations"]] + [dict(
                         id="%s.%s.panic_free" % (h["prop"], h["name"]),
                         text="no reachable panic, arithmetic-overflow check, out-of-bounds or invalid memory access in the code exercised (all CBMC built-in checks)")],
                     failed=[], status="ok", nofloat=nofloat, meta=h)
            if r["status"] == "success":
                if r["covers_total"] and r["covers_sat"] != r["covers_total"]:
                    u["status"] = "undecided"
                    u["reason"] = "vacuity guard: %d of %d cover properties satisfied" % (r["covers_sat"], r["covers_total"])
            elif r["status"] == "failed":
                kinds = [(K.classify_failure(f[0]), f) for f in r["failed"]]
                prop_f = [f for k, f in kinds if k == "property"]
                builtin_f = [f for k, f in kinds if k == "builtin"]
                und_f = [f for k, f in kinds if k in ("unwind", "unsupported")]
                if und_f and not prop_f:
                    u["status"] = "undecided"
                    u["reason"] = "tool limit: " + "; ".join(f[0][:120] for f in und_f[:3])
                elif prop_f or builtin_f:
                    u["status"] = "fail"
                    u["failed"] = [dict(msg=f[0], loc=f[1], oid=f[0].split(":")[0].strip()) for f in prop_f] + \
                                  [dict(msg="%s.%s.panic_free: %s" % (h["prop"], h["name"], f[0]), loc=f[1],
                                        oid="%s.%s.panic_free" % (h["prop"], h["name"])) for f in builtin_f]
                else:
                    u["status"] = "undecided"
                    u["reason"] = "failed without a classified check: " + r["raw"][-400:]
            else:
                u["status"] = "undecided"
                u["reason"] = "no result (%s): timeout/OOM/ICE" % r["status"]
            units.append(u)
    return units, undecided, cmds


def kani_replay(pid, u, log):
    """Concrete playback of a failed Kani unit against the natively compiled real code."""
    h = u["meta"]
    log("replay: concrete playback for %s" % h["name"])
    tests, tail, w1 = K.concrete_playback(h, u["nofloat"])
    info = dict(kind="kani-playback", property=pid, unit=h["name"], harness=h["fqn"],
                failed_obligations=u["failed"], playback_tests=[], confirmed_on_real_code=False)
    if tests:
        res, tail2, w2 = K.playback_run(h["module"], tests)
        for t in tests:
            r = res.get(t["test_name"], {})
            info["playback_tests"].append(dict(test=t["test_name"], check=t["check"], inputs=t["values"],
                                               src=t["src"], native_result=r))
            if r.get("failed"):
                info["confirmed_on_real_code"] = True
        info["native_tail"] = tail2[-1500:]
    else:
        info["verifier_output"] = tail
    return info


def write_replay(pid, unit, info):
    d = os.path.join(C.REPLAYS, pid)
    os.makedirs(d, exist_ok=True)
    hsh = C.sha(json.dumps(info, sort_keys=True, default=str))[:10]
    p = os.path.join(d, "%s-%s.json" % (unit, hsh))
    C.write(p, json.dumps(info, indent=1, default=str) + "\n")
    return p


def check_property(pid, tier, seed):
    t0 = time.time()
    C.ensure_dirs()
    spec = P.PROPS[pid]
    log = lambda *a: C.log("[%s/%s]" % (pid, tier), *a)
    os.environ["VERIF_TIER"] = tier   # the native stand-ins enlarge their domains for the thorough tier
    undecided, units, cmds = [], [], []

    # frame scans (syntactic side conditions; a changed frame => undecided, never an alarm)
    scan_results = []
    for sname in spec.get("scans", []):
        ok, detail = S.run_scan(sname)
        scan_results.append(dict(scan=sname, ok=ok, detail=detail))
        if not ok:
            undecided.append("frame scan %s: %s" % (sname, detail))

    knames = spec.get("kani", [])
    if tier == "quick" and "kani_quick" in spec:
        knames = spec["kani_quick"]
    ku, kund, kcmds = run_kani_units(pid, knames, tier, log)
    units += ku
    undecided += kund
    cmds += kcmds

    vu, vund, vcmds = V.run_verus_units(pid, spec.get("verus", []), tier, log)
    units += vu
    undecided += vund
    cmds += vcmds

    # bounded stand-ins for functions that are out of the verifiers' reach: the native witness
    # domains run on the real code on every check, labelled bounded, never counted as proved
    for bn in spec.get("bounded_native", []):
        log("native bounded stand-in: %s" % bn["unit"])
        w = V.native_witness([bn["unit"]], log)
        oid = "%s.%s.bounded" % (pid, bn["unit"])
        u = dict(unit="native_" + bn["unit"], backend="native execution of the real crate (bounded stand-in)", functions=bn.get("functions", []),
                 bounded=(bn.get("bound_thorough") or bn["bound"]) if tier == "thorough" else bn["bound"], obligations=[dict(id=oid, text=bn["text"])], failed=[], status="ok", time_s=None,
                 meta=dict(native_cases=w.get("failing_cases", [])))
        if not w.get("built"):
            u["status"] = "undecided"
            u["reason"] = "replay crate did not build: " + (w.get("build_tail") or "")[-300:]
        elif w.get("abnormal") and not w.get("failing_cases"):
            u["status"] = "undecided"
            u["reason"] = w["abnormal"]
        elif w.get("failing_cases"):
            u["status"] = "fail"
            u["failed"] = [dict(msg="%s: %s" % (oid, bn["text"]), oid=oid,
                                loc="bounded stand-in: %d failing case(s) on the real code, first: %s" % (
                                    len(w["failing_cases"]), json.dumps(w["failing_cases"][0])[:400]))]
        units.append(u)
        cmds.append("verif-replay %s" % bn["unit"])

    # a unit may carry obligations of several properties: this check decides only its own
    # (ids prefixed by the property id; for C04 every `.safety` / `.panic_free` obligation)
    def mine(oid):
        if pid == "C04":
            return oid.endswith(".safety") or oid.endswith(".panic_free") or oid.startswith("C04.")
        if pid == "C05":
            # Verus body-safety obligations include termination (every loop/recursion has a proved `decreases`)
            return oid.endswith(".safety") or oid.startswith("C05.")
        return oid.startswith(pid + ".")
    def mine_u(u, oid):
        # a body-safety failure (loop invariant, overflow, unreachable!, ...) of a function that serves
        # several properties counts for each of them: it voids that function's contract as a whole
        props_of_unit = u.get("meta", {}).get("prop") if isinstance(u.get("meta"), dict) else None
        if oid.endswith(".safety") and isinstance(props_of_unit, list) and pid in props_of_unit:
            return True
        return mine(oid)
    for u in units:
        u["obligations"] = [o for o in u["obligations"] if mine(o["id"])]
        if u["status"] == "fail":
            for f in u["failed"]:
                f.setdefault("oid", f["msg"].split(":")[0].strip())
            u["all_failed"] = list(u["failed"])
            other = [f for f in u["failed"] if not mine_u(u, f["oid"])]
            u["failed"] = [f for f in u["failed"] if mine_u(u, f["oid"])]
            if other:
                u["other_property_failures"] = [f["oid"] for f in other]
            if not u["failed"]:
                u["status"] = "ok"
                # obligations after a failed Kani assert are only checked under its assumption
                u["note"] = "obligations of another property failed in this unit: %s" % ", ".join(f["oid"] for f in other)

    # decide
    findings, _fixed = C.known_findings()
    known = {(f["property"], f["obligation"]): f for f in findings}
    violations, known_hits = [], []
    for u in units:
        if u["status"] != "fail":
            continue
        new_f = []
        for f in u["failed"]:
            oid = f["oid"]
            if (pid, oid) in known:
                known_hits.append((oid, known[(pid, oid)]["text"]))
            else:
                new_f.append(f)
        if new_f:
            violations.append((u, new_f))
        else:
            u["status"] = "known-finding"

    vio_lines = []
    for u, fl in violations:
        if u["backend"].startswith("kani"):
            info = kani_replay(pid, u, log)
        elif u["backend"].startswith("native"):
            info = dict(kind="native-bounded-stand-in", property=pid, unit=u["unit"], failed_obligations=u["failed"],
                        failing_cases=u["meta"].get("native_cases", []), confirmed_on_real_code=True,
                        cmd="cd /verif/replay && cargo build --offline && verif-replay %s" % u["unit"].replace("native_", ""))
        else:
            info = V.verus_replay(pid, u, log)
        path = write_replay(pid, u["unit"], info)
        suffix = "" if info.get("confirmed_on_real_code") else " no-failing-input-found"
        vio_lines.append("VIOLATION property=%s replay=%s obligation=%s%s" % (
            pid, path, fl[0]["oid"], suffix))

    # evidence
    # obligations that fail and are recorded as known findings are not claimed: they are listed under
    # known_findings / known_finding_obligations and left out of the proof-level obligations count
    kf_ids = set(k[0] for k in known_hits)
    n_obl = sum(len([o for o in u["obligations"] if o["id"] not in kf_ids]) for u in units if not u.get("bounded"))
    def _discharged(u):
        if u.get("bounded"):
            return 0
        if u["status"] == "ok":
            return len(u["obligations"])
        # Verus checks each postcondition clause on its own: when only named clauses fail (no body-level
        # `.safety` failure, after which later facts would rest on a failed assertion) the others stand
        if u["backend"].startswith("verus") and u["status"] in ("fail", "known-finding"):
            fo = set(f.get("oid") for f in u.get("all_failed", u.get("failed", [])))
            if fo and not any(o.endswith(".safety") for o in fo):
                return len([o for o in u["obligations"] if o["id"] not in fo])
        return 0
    n_dis = sum(_discharged(u) for u in units)
    bounded_units = [dict(unit=u["unit"], bound=u["bounded"], status=u["status"],
                          obligations=[o["id"] for o in u["obligations"]]) for u in units if u.get("bounded")]
    n_bobl = sum(len(b["obligations"]) for b in bounded_units)
    samples = []
    for u in units[:60]:
        for o in u["obligations"][:3]:
            samples.append("%s [%s] %s: %s" % (u["unit"], u["backend"], o["id"], o["text"]))
    level = spec["level"]
    if n_obl == 0 and not bounded_units:
        undecided.append("vacuity guard: zero obligations generated")
    coverage = dict(
        obligations=n_obl, discharged=n_dis,
        checker_cmd=" ; ".join(cmds) if cmds else "none",
        trusted_base=spec.get("trusted", []) + P.COMMON_TRUSTED,
        bounded_obligations=n_bobl,
        bounded_units=bounded_units,
        units=[dict(unit=u["unit"], backend=u["backend"], status=u["status"], functions=u.get("functions", []),
                    solver_time_s=u.get("time_s"), cbmc_checks=u.get("cbmc_checks"),
                    cbmc_unreachable=u.get("cbmc_unreachable"), covers=u.get("covers"),
                    bounded=u.get("bounded") or None, reason=u.get("reason"),
                    obligations=[o["id"] for o in u["obligations"]],
                    extraction=u.get("extraction"), note=u.get("note"), assumed_items=u.get("assumed_items"),
                    bounded_fallback=u.get("bounded_fallback")) for u in units],
        functions_under_contract=sorted(set(f for u in units for f in u.get("functions", []))),
        frame_scans=scan_results,
        samples=samples[:40] or ["none"],
        evaluations=max(1, n_obl + n_bobl),
        distinct_nontrivial=max(2, n_obl + n_bobl),
        rule="one case = one named contract clause (obligation) on a real function; distinct by obligation id",
        explanation=spec.get("text", ""),
        not_covered=spec.get("not_covered", []),
        undecided=undecided,
        known_findings=[k[0] for k in known_hits],
        known_finding_obligations=[dict(id=k[0], what_fails=k[1][:400]) for k in known_hits],
    )
    wall = time.time() - t0
    C.write_evidence(pid, tier, seed, level, coverage, spec.get("assumptions", []) + P.COMMON_ASSUMPTIONS,
                     wall, len(vio_lines))
    for oid, text in known_hits:
        print("KNOWN-FINDING: property=%s %s %s" % (pid, oid, text))
    for l in vio_lines:
        print(l)
    print("%s %s: %d units, %d/%d obligations discharged (+%d bounded), %d violation(s), %d undecided, %.0fs" % (
        pid, tier, len(units), n_dis, n_obl, n_bobl, len(vio_lines), len(undecided), wall))
    for r in undecided:
        print("UNDECIDED: " + r[:600])
    for u in units:
        if u["status"] == "undecided":
            print("UNDECIDED: unit %s: %s" % (u["unit"], (u.get("reason") or "")[:400]))
    sys.stdout.flush()
    if vio_lines:
        return C.EXIT_VIOLATION
    if undecided or any(u["status"] == "undecided" for u in units):
        return C.EXIT_UNDECIDED
    return C.EXIT_OK
