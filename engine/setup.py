"""./check --setup : build caches from files on disk only (offline)."""
import os

from . import common as C
from . import kani_run as K
from . import props as P  # noqa: F401  (registers modules)


def main():
    C.ensure_dirs()
    allh = K.all_harnesses()
    # one cheap harness compiles the dependency graph for the `compiler` feature set
    h = allh.get("c11_float_result")
    if h:
        res, out, wall, cmd = K.run_group([h], h["features"], True, 120, 2, overall_timeout=3000)
        print("setup: kani warm-up %.0fs status=%s" % (wall, res[h["fqn"]]["status"]))
        if "_build_error" in res:
            print(res["_build_error"][-2000:])
            return 1
    h2 = allh.get("k_abs_int")
    if h2:
        res, out, wall, cmd = K.run_group([h2], h2["features"], True, 300, 2, overall_timeout=3600)
        print("setup: kani warm-up (stdlib-base) %.0fs status=%s" % (wall, res[h2["fqn"]]["status"]))
    from . import verus_run as V
    if hasattr(V, "warmup"):
        V.warmup()
    ok, tail, wall = V.build_replay()
    print("setup: native replay crate build %.0fs ok=%s" % (wall, ok))
    return 0
