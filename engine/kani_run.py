"""Run Kani harnesses (text in /verif/kani/*.rs, compiled inside the real vrl crate via the
cfg(kani) hook modules) on /repo's current working tree, parse per-harness results, and replay
counterexamples natively with `cargo kani playback` (real code, concrete execution)."""
import os
import re
import time

from . import common as C

KANI_TARGET = os.path.join(C.CACHE, "kani-target")
PLAYBACK_TARGET = os.path.join(C.CACHE, "kani-playback-target")

# kani source file (in /verif/kani) -> where its hook lives in /repo and its module path
MODULES = {}


def register_module(name, hook_file, mod_path, features):
    MODULES[name] = dict(name=name, hook_file=hook_file, mod_path=mod_path, features=features,
                         src=os.path.join(C.VERIF, "kani", name + ".rs"))


def hook_line(name):
    return '#[path = "/verif/kani/%s.rs"]' % name


def check_hooks(mods):
    """Return list of problems (lost hook => undecided, never an alarm)."""
    probs = []
    b = C.read(os.path.join(C.REPO, "build.rs"))
    if "rustc-check-cfg=cfg(kani)" not in b:
        probs.append("build.rs: cfg(kani) check-cfg hook missing")
    for m in mods:
        md = MODULES[m]
        p = os.path.join(C.REPO, md["hook_file"])
        if not os.path.exists(p) or hook_line(m) not in C.read(p):
            probs.append("%s: hook module for /verif/kani/%s.rs missing" % (md["hook_file"], m))
    return probs


_UNIT_RE = re.compile(r"//\s*@unit\b(.*)")


def parse_harnesses(name):
    """Parse /verif/kani/<name>.rs -> {harness: meta}. Meta from `// @unit k=v ...` comment lines
    directly above `#[kani::proof]`, obligations from assert! messages "Cxx.a.b: text"."""
    src = C.read(MODULES[name]["src"])
    out = {}
    # split on proof attribute
    parts = re.split(r"(?m)^#\[kani::proof\]", src)
    for i in range(1, len(parts)):
        before = parts[i - 1]
        body = parts[i]
        m = re.search(r"fn\s+([a-zA-Z0-9_]+)\s*\(", body)
        if not m:
            continue
        hname = m.group(1)
        # body ends at next top-level "\n}\n"
        end = body.find("\n}\n")
        text = body[: end + 3] if end >= 0 else body
        meta = dict(tier="q", float="0", bounded="", fn="", prop="", timeout="", stubs="")
        # gather @unit lines in the trailing comment block of `before`
        tail = before.rstrip().splitlines()
        lines = []
        while tail and tail[-1].strip().startswith("//"):
            lines.append(tail.pop().strip())
        for ln in lines:
            mu = _UNIT_RE.match(ln)
            if mu:
                for k, v in re.findall(r'(\w+)=("[^"]*"|\S+)', mu.group(1)):
                    meta[k] = v.strip('"')
        obl = re.findall(r'"((?:C\d+|CANARY)[^":]*): ([^"]*)"', text)
        # obligations asserted in shared helper fns are declared on the harness: `// @obl id: text`
        obl += [(a, b.strip()) for ln in lines for a, b in re.findall(r"//\s*@obl\s+(C\d+[^:]*):\s*(.*)$", ln)]
        covers = re.findall(r'kani::cover!\([^;]*?"([^"]+)"\s*\)\s*;', text, flags=re.S)
        unwind = re.search(r"#\[kani::unwind\((\d+)\)\]", text)
        meta.update(name=hname, module=name, fqn=MODULES[name]["mod_path"] + "::" + hname,
                    obligations=[dict(id=a, text=b) for a, b in obl], covers=covers,
                    unwind=int(unwind.group(1)) if unwind else None,
                    features=MODULES[name]["features"])
        if not meta["prop"]:
            ids = [a for a, _ in obl if a.startswith("C")]
            meta["prop"] = ids[0].split(".")[0] if ids else ""
        out[hname] = meta
    return out


def all_harnesses():
    res = {}
    for n in MODULES:
        if os.path.exists(MODULES[n]["src"]):
            res.update(parse_harnesses(n))
    return res


def _base_cmd(features, nofloat):
    cmd = ["cargo", "kani", "--lib", "--no-default-features", "--features", features,
           "-Z", "function-contracts", "-Z", "stubbing", "-Z", "unstable-options"]
    if nofloat:
        cmd.append("--no-overflow-checks")
    return cmd


_RES_RE = re.compile(r"\*\* (\d+) of (\d+) failed(?: \((\d+) (?:unreachable|undetermined)[^)]*\))?")


def parse_output(out):
    """-> {fqn: dict(status, failed:[(msg, file, line)], checks, nfailed, unreachable, covers_sat,
    covers_total, time)}"""
    res = {}
    cur = {}  # thread -> fqn
    lines = out.splitlines()
    i = 0
    thread = None
    active = None
    while i < len(lines):
        ln = lines[i]
        m = re.match(r"(?:Thread (\d+): )?Checking harness (\S+?)\.\.\.\s*$", ln)
        if m:
            thread = m.group(1) or "0"
            cur[thread] = m.group(2)
            res[m.group(2)] = dict(status="noresult", failed=[], checks=0, nfailed=0, unreachable=0,
                                   covers_sat=0, covers_total=0, time=0.0, raw=[])
            active = m.group(2)
            i += 1
            continue
        m = re.match(r"Thread (\d+):\s*$", ln)
        if m:
            active = cur.get(m.group(1))
            i += 1
            continue
        if active and active in res:
            r = res[active]
            r["raw"].append(ln)
            m = _RES_RE.search(ln)
            if m and "cover" not in ln:
                r["nfailed"] = int(m.group(1))
                r["checks"] = int(m.group(2))
                r["unreachable"] = int(m.group(3) or 0)
            m = re.search(r"\*\* (\d+) of (\d+) cover properties satisfied", ln)
            if m:
                r["covers_sat"], r["covers_total"] = int(m.group(1)), int(m.group(2))
            m = re.match(r'Failed Checks: (.*)$', ln)
            if m:
                msg = m.group(1).strip()
                if msg.startswith('"') and msg.endswith('"'):
                    msg = msg[1:-1]
                loc = ""
                if i + 1 < len(lines) and lines[i + 1].strip().startswith("File:"):
                    loc = lines[i + 1].strip()
                r["failed"].append((msg, loc))
            if "VERIFICATION:- SUCCESSFUL" in ln:
                r["status"] = "success"
            elif "VERIFICATION:- FAILED" in ln:
                r["status"] = "failed"
            m = re.match(r"Verification Time: ([0-9.]+)s", ln)
            if m:
                r["time"] = float(m.group(1))
            if "CBMC timed out" in ln or "timed out" in ln.lower():
                r["status"] = "timeout"
            if "run out of memory" in ln:
                r["status"] = "oom"
        i += 1
    for r in res.values():
        r["raw"] = "\n".join(r["raw"][-60:])
    return res


def run_group(harness_metas, features, nofloat, per_harness_timeout=300, jobs=8, overall_timeout=None):
    """One cargo kani invocation. Returns ({fqn: result}, raw_output, wall, cmd_str)."""
    cmd = _base_cmd(features, nofloat)
    cmd += ["--harness-timeout", "%ds" % per_harness_timeout, "-j", str(jobs),
            "--output-format", "terse", "--exact"]
    for h in harness_metas:
        cmd += ["--harness", h["fqn"]]
    env = C.env_offline()
    env["CARGO_TARGET_DIR"] = KANI_TARGET
    if overall_timeout is None:
        n = len(harness_metas)
        overall_timeout = 600 + per_harness_timeout * (1 + (n - 1) // max(1, jobs)) + 60
    rc, out, wall = C.run(cmd, cwd=C.REPO, timeout=overall_timeout, env=env)
    res = parse_output(out)
    for h in harness_metas:
        if h["fqn"] not in res:
            res[h["fqn"]] = dict(status="noresult", failed=[], checks=0, nfailed=0, unreachable=0,
                                 covers_sat=0, covers_total=0, time=0.0, raw="")
    res["_rc"] = rc
    if rc is None or ("error: could not compile" in out) or ("error[E" in out):
        res["_build_error"] = out[-4000:]
    return res, out, wall, " ".join(cmd)


def classify_failure(msg):
    """'property' (a named contract clause), 'canary', 'unwind' (bound too small => undecided),
    'unsupported' (tool limit => undecided) or 'builtin' (panic/overflow/memory-safety check)."""
    if msg.startswith("CANARY"):
        return "canary"
    if re.match(r"C\d+\.", msg):
        return "property"
    if "unwinding assertion" in msg:
        return "unwind"
    if "is not currently supported by Kani" in msg or "unsupported" in msg.lower() or \
            "Function with missing definition" in msg or "call to foreign" in msg:
        return "unsupported"
    return "builtin"


def concrete_playback(h, nofloat, timeout=1500):
    """Rerun one failing harness alone with --concrete-playback=print. Returns list of
    dict(test_name, check, src) for assertion failures (covers skipped)."""
    cmd = _base_cmd(h["features"], nofloat)
    cmd += ["-Z", "concrete-playback", "--concrete-playback=print", "--output-format", "terse",
            "--exact", "--harness", h["fqn"]]
    env = C.env_offline()
    env["CARGO_TARGET_DIR"] = KANI_TARGET
    rc, out, wall = C.run(cmd, cwd=C.REPO, timeout=timeout, env=env)
    tests = []
    for blk in re.findall(r"```\n(.*?)```", out, flags=re.S):
        mchk = re.search(r"/// Check for `([^`]*)`: \"?\"?(.*?)\"?\"?\n", blk)
        mname = re.search(r"fn (kani_concrete_playback_\w+)\(", blk)
        if not mname:
            continue
        kind = mchk.group(1) if mchk else ""
        if kind == "cover":
            continue
        vals = re.findall(r"//\s*(.+)\n\s*vec!\[([^\]]*)\]", blk)
        tests.append(dict(test_name=mname.group(1), check=(mchk.group(2) if mchk else ""),
                          src=blk, values=[dict(comment=a.strip(), bytes=b.strip()) for a, b in vals]))
    return tests, out[-3000:], wall


def playback_run(module, tests, timeout=2400):
    """Write tests into the module's playback include file and execute them natively against the
    real crate (all default features, test profile) with `cargo kani playback`. Returns
    {test_name: dict(failed:bool, message:str)} and raw tail."""
    C.ensure_dirs()
    inc = os.path.join(C.CACHE, "playback", module + ".rs")
    # every module's include file must exist for the test-cfg build
    import glob
    names = set(MODULES) | set(os.path.basename(f)[:-3] for f in glob.glob(os.path.join(C.VERIF, "kani", "*.rs")))
    for m in names:
        p = os.path.join(C.CACHE, "playback", m + ".rs")
        if not os.path.exists(p) or m == module:
            C.write(p, "")
    C.write(inc, "\n".join(t["src"] for t in tests) + "\n")
    cmd = ["cargo", "kani", "playback", "-Z", "concrete-playback", "--lib", "--",
           "kani_concrete_playback", "--test-threads", "1"]
    env = C.env_offline()
    env["CARGO_TARGET_DIR"] = PLAYBACK_TARGET
    env["RUST_BACKTRACE"] = "0"
    rc, out, wall = C.run(cmd, cwd=C.REPO, timeout=timeout, env=env)
    C.write(inc, "")
    res = {}
    for t in tests:
        n = t["test_name"]
        m = re.search(r"test \S*%s \.\.\. (\w+)" % re.escape(n), out)
        st = m.group(1) if m else "notrun"
        msg = ""
        mp = re.search(r"thread '[^']*%s'[^\n]*panicked at ([^\n]*)\n([^\n]*)" % re.escape(n), out)
        if mp:
            msg = mp.group(2).strip() + " @ " + mp.group(1).strip()
        res[n] = dict(status=st, failed=(st == "FAILED"), message=msg)
    return res, out[-3000:], wall
