"""Regenerate /verif/MANIFEST.json from the property registry (python3 -m engine.manifest)."""
import json
import os

from . import props as P
from . import common as C

NA = {
    "C14": "determinism across threads/histories: Kani has no thread support, Verus would need the code rewritten with permission types; cross-run equality is a hyper-property, not a per-call contract",
    "C20": "path text round-trip: renderer uses a regex, parsers are a &str state machine and a LALRPOP grammar; Verus rejects str slicing, Kani ICEs on regex",
    "C21": "JSON round-trip is serde_json's serializer/parser (external crate, float printing); no contract on vrl code expresses it",
    "C22": "codecs are flate2/zstd(C)/snap/lz4/base64-simd/charset crates; vrl contributes option plumbing only",
    "C23": "ciphers are RustCrypto/ipcrypt crates; decrypt(encrypt(x)) == x is their contract, not vrl's",
    "C24": "encoders/parsers are String-building code plus nom combinators; outside str reasoning of both verifiers",
    "C26": "prost-reflect dynamic messages and descriptor files (external crate, data-dependent)",
    "C27": "'matches the published algorithm' needs an independent reference implementation: differential testing, not a contract on vrl code",
    "C30": "pest-generated parser + regex-based unescape; no contract within reach decides the round-trip",
    "C32": "grok compiles to onig/fancy-regex patterns (C library / regex engines)",
    "C33": "spans come from the LALRPOP lexer over arbitrary source text, rendering is codespan_reporting; no per-function contract captures every diagnostic of every source",
    "C34": "semantic equivalence of two whole programs (original vs edited): relational whole-program property with no function to put the contract on",
    "C36": "explicit-offset half lives in chrono strptime/formatting; the frame half is a syntactic call-site scan, which generates no verifier obligation",
}
PENDING = "planned in DESIGN.md, unit not built yet"
NA.update({
    "C31": "Datadog matcher composition is generic over Box<dyn Matcher> closures built by regex-based leaf filters; not extractable for Verus, dyn dispatch + regex out of reach for Kani here",
    "C35": "embedder conversions are std str parsing (i64/f64 from_str, chrono strptime); parse_bool's finite spelling table is the only decidable part and does not decide the property",
})


def _note(s):
    """Assumptions of this check in one string: tools, then the property's own trusted contracts,
    bounded stand-ins and what is not covered (full lists are in the evidence file)."""
    parts = ["trusted: Kani/CBMC/CaDiCaL, Verus/Z3, rustc MIR; harness and prelude text in /verif; stubs listed in the evidence file"]
    if s.get("trusted"):
        parts.append("assumed contracts: " + " | ".join(s["trusted"]))
    if s.get("bounded_native"):
        parts.append("bounded stand-ins (never counted as proved): " + " | ".join("%s [%s]" % (b["unit"], b["bound"]) for b in s["bounded_native"]))
    if s.get("not_covered"):
        parts.append("not covered: " + " | ".join(s["not_covered"]))
    return " ;; ".join(parts)[:4000]


def build():
    props = [json.loads(l) for l in open(os.path.join(C.VERIF, "properties.jsonl"))]
    checks = []
    na = []
    for p in props:
        pid = p["id"]
        if pid in P.PROPS:
            s = P.PROPS[pid]
            checks.append(dict(
                property_id=pid,
                quick_cmd="./check %s --tier quick" % pid,
                thorough_cmd="./check %s --tier thorough" % pid,
                evidence_file="/verif/evidence/%s.json" % pid,
                replay_cmd_template="./check --replay {path}",
                engine="verif-contracts",
                level_claimed=dict(category=s["level"], text=s["level_text"] if "level_text" in s else s["text"],
                                   design_ref=s.get("design_ref", "DESIGN.md §4 " + pid)),
                level_note=s.get("level_note", _note(s)),
                technique=s.get("technique", "contract-based deductive verification (Kani function-level contracts on the real crate)"),
            ))
        else:
            na.append(dict(property_id=pid, reason=NA.get(pid, PENDING)))
    m = dict(
        version=1,
        setup_cmd="./check --setup",
        hooks=dict(guard="cfg(kani)",
                   enable="cargo kani sets --cfg kani; harness text in /verif/kani/*.rs is mounted by `#[cfg(kani)] #[path=..] mod kani_verif;` items",
                   baseline_off_cmd="cd /repo && cargo nextest run --workspace --no-fail-fast --test-threads 8 --offline",
                   source_commits=P.HOOK_COMMITS, add_only=True),
        engines=[dict(name="verif-contracts", path="/verif/check",
                      serves_properties=[c["property_id"] for c in checks],
                      kind_free_text="contract-based deductive verification: Kani/CBMC contracts compiled inside the real crate; Verus on function bodies extracted mechanically each run")],
        checks=checks,
        notes="See DESIGN.md. exit 0 held / 1 VIOLATION / 2 undecided (tool limit, lost anchor).",
        not_applicable=na,
    )
    C.write(os.path.join(C.VERIF, "MANIFEST.json"), json.dumps(m, indent=1) + "\n")
    return m


if __name__ == "__main__":
    m = build()
    print("checks:", [c["property_id"] for c in m["checks"]])
