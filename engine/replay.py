"""`./check --replay <file>`: re-execute a recorded violation against /repo's current working tree.

* kani-playback: the concrete tests Kani generated for the failed harness are written into the
  harness module's playback include and run natively (`cargo kani playback`, real code);
* native-bounded-stand-in: the witness unit is rebuilt against /repo and run again;
* verus-obligation: the unit is re-extracted and re-verified, then its native witness domains run.

Exit 1 when the violation reproduces (a failing test / failing case / failing obligation is printed),
0 when it no longer does, 2 when the replay could not be executed."""
import json
import os

from . import common as C
from . import kani_run as K
from . import props as P  # noqa: F401  (registers the Kani modules)
from . import verus_run as V


def _log(*a):
    C.log("[replay]", *a)


def main(path):
    if not os.path.exists(path):
        print("replay file not found: %s" % path)
        return 2
    info = json.load(open(path))
    kind = info.get("kind")
    pid = info.get("property")
    print("replay of %s (%s, property %s, unit %s)" % (path, kind, pid, info.get("unit")))
    for f in info.get("failed_obligations", [])[:6]:
        if isinstance(f, dict):
            print("  recorded failing obligation: %s" % f.get("msg", "")[:300])
    if kind == "kani-playback":
        tests = [dict(test_name=t["test"], check=t.get("check", ""), src=t["src"], values=t.get("inputs", []))
                 for t in info.get("playback_tests", []) if t.get("src")]
        if not tests:
            print("no concrete playback test was recorded (the verifier gave no counterexample):")
            print((info.get("verifier_output") or "")[-1500:])
            return 2
        module = info["harness"].split("::kani_verif::")[0]
        mod = next((n for n, md in K.MODULES.items() if md["mod_path"].startswith(module + "::")), None)
        if mod is None:
            print("cannot locate the harness module for %s" % info["harness"])
            return 2
        res, tail, wall = K.playback_run(mod, tests)
        rep = False
        for t in tests:
            r = res.get(t["test_name"], {})
            print("  %s: %s %s" % (t["test_name"], r.get("status"), r.get("message", "")))
            for v in t["values"]:
                print("      input %s = bytes [%s]" % (v.get("comment"), v.get("bytes")))
            rep = rep or bool(r.get("failed"))
        print("reproduced on the real code" if rep else "not reproduced (all playback tests pass on the current tree)")
        return 1 if rep else 0
    if kind == "native-bounded-stand-in":
        unit = info.get("unit", "").replace("native_", "", 1)
        w = V.native_witness([unit], _log)
        if not w.get("built") or (w.get("abnormal") and not w.get("failing_cases")):
            print("replay could not run: %s" % (w.get("abnormal") or (w.get("build_tail") or "")[-400:]))
            return 2
        for c in w.get("failing_cases", []):
            print("  failing case: %s" % json.dumps(c)[:600])
        print("reproduced on the real code" if w.get("failing_cases") else "not reproduced (the witness domain passes on the current tree)")
        return 1 if w.get("failing_cases") else 0
    if kind == "verus-obligation":
        allu = V.load_units()
        uname = info.get("unit")
        if uname not in allu:
            print("unknown verus unit %s" % uname)
            return 2
        V.CURRENT_PID = pid
        r, cmd = V.run_unit(uname, allu[uname], _log)
        print("  verifier: %s" % cmd)
        for f in r.get("failed", []):
            print("  failing obligation: %s\n      %s" % (f.get("msg", "")[:300], f.get("loc", "")[:400]))
        if r["status"] == "undecided":
            print("  undecided: %s" % (r.get("reason") or "")[:400])
        wm = V._witness_map(allu[uname])
        wunits = wm.get(pid) or []
        cases = []
        if wunits:
            w = V.native_witness(list(wunits), _log)
            cases = w.get("failing_cases", [])
            for c in cases:
                print("  failing case on the real code: %s" % json.dumps(c)[:600])
        if r["status"] == "fail" or cases:
            print("reproduced" + (" with a concrete failing input" if cases else " (failing obligation; no-failing-input-found)"))
            return 1
        if r["status"] == "undecided":
            return 2
        print("not reproduced (the unit verifies on the current tree)")
        return 0
    print("unknown replay kind %r" % kind)
    return 2
